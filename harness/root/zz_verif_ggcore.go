package participle

// Portable core shared by the root-package harnesses and (with the package
// clause rewritten by ./check) the ebnf-package harness of C14: the abstract
// grammar types of the reference semantics and the deterministic generator of
// grammars that prints them to struct tags and builds dynamic struct types.
// It uses reflect, strconv and the lexer package only.

import (
	"reflect"
	"strconv"

	"github.com/alecthomas/participle/v2/lexer"
)

// ---------- abstract grammar ----------

const (
	kLit  = iota // "text"
	kTLit        // "text":Type
	kRef         // Type
	kSeq         // a b c
	kAlt         // a | b
	kGrp         // ( a ) with modifier
	kCap         // @a
	kSub         // @@
	kNeg         // ~a
	kLA          // (?= a) (?! a)
)

const (
	mOnce = iota
	mOpt
	mStar
	mPlus
	mNonEmpty
)

const (
	fStr = iota
	fStrs
	fBool
	fTok
	fToks
	fSubP  // *T
	fSubV  // T
	fSubPS // []*T
	fSubVS // []T
	fUnion // interface (union)
	fUnions
	fOther // numeric etc. (not compared here)
)

type rx struct {
	kind  int
	s     string // literal text
	typ   string // token name
	mode  int
	neg   bool
	kids  []*rx
	field int
	prod  *rprod
}

type rfield struct {
	name  string
	kind  int
	index []int // reflect index path
	sub   *rprod
}

type rprod struct {
	name    string
	typ     reflect.Type
	expr    *rx
	fields  []rfield
	union   bool
	members []*rprod
	// optional position fields
	posIdx, endIdx, toksIdx []int
}

const vhGenSeed = 1 // @tier quick=1 thorough=1

type vhRand struct{ s uint64 }

func (r *vhRand) next() uint64 {
	r.s ^= r.s << 13
	r.s ^= r.s >> 7
	r.s ^= r.s << 17
	return r.s
}

func (r *vhRand) intn(n int) int { return int(r.next() % uint64(n)) }

// generator-side grammar
type ggProd struct {
	expr   *rx
	fkinds []int
	subs   []*ggProd
	rt     reflect.Type
}

type ggGen struct {
	r      *vhRand
	nprod  int
	noToks bool // do not generate lexer.Token / []lexer.Token fields
	noNeg  bool // do not generate ~ and lookahead groups (C13's grammar class)
	lits   []string
	deep   bool
}

// literal texts that need escaping when printed (C14's generated family)
var ggEscVals = []string{"a", "\\", "\"", "a\\", "\n", "b"}

func (g *ggGen) lit() string {
	if g.lits != nil {
		return g.lits[g.r.intn(len(g.lits))]
	}
	return ggVals[g.r.intn(len(ggVals))]
}

var ggTokNames = []string{"A", "B", "C", "A", "B", "Ws"} // the elided type is named now and then
var ggVals = []string{"a", "b", "x"}

func (g *ggGen) nullable(e *rx) bool {
	switch e.kind {
	case kLit, kTLit, kRef, kNeg:
		return false
	case kSeq:
		for _, k := range e.kids {
			if !g.nullable(k) {
				return false
			}
		}
		return true
	case kAlt:
		for _, k := range e.kids {
			if g.nullable(k) {
				return true
			}
		}
		return false
	case kGrp:
		if e.mode == mOpt || e.mode == mStar {
			return true
		}
		if e.mode == mNonEmpty {
			return false
		}
		return g.nullable(e.kids[0])
	case kCap:
		return g.nullable(e.kids[0])
	case kSub:
		return true // decided by the sub-production; be conservative
	case kLA:
		return true
	}
	return true
}

func (g *ggGen) term(d int, inCap bool, p *ggProd) *rx {
	for {
		c := g.r.intn(100)
		switch {
		case c < 20:
			return &rx{kind: kLit, s: g.lit()}
		case c < 27:
			return &rx{kind: kTLit, s: g.lit(), typ: ggTokNames[g.r.intn(len(ggTokNames))]}
		case c < 45:
			return &rx{kind: kRef, typ: ggTokNames[g.r.intn(len(ggTokNames))]}
		case c < 62 && d > 0:
			return g.group(d-1, inCap, p)
		case c < 80 && !inCap:
			body := g.term(d-1, true, p)
			if body.kind == kLA {
				continue
			}
			kind := []int{fStr, fStr, fStrs, fBool, fTok, fToks}[g.r.intn(6)]
			if g.noToks && (kind == fTok || kind == fToks) {
				kind = fStrs
			}
			f := g.newField(p, kind, nil)
			return &rx{kind: kCap, field: f, kids: []*rx{body}}
		case c < 87 && !inCap && d > 0 && g.nprod < 3:
			g.nprod++
			sub := g.prod(d - 1)
			f := g.newField(p, []int{fSubP, fSubPS}[g.r.intn(2)], sub)
			return &rx{kind: kSub, field: f}
		case c < 92:
			if g.noNeg {
				continue
			}
			if g.deep && g.r.intn(3) == 0 {
				// ~( ... ) over a group of terminals, with or without a modifier
				return &rx{kind: kNeg, kids: []*rx{g.group(0, true, p)}}
			}
			t := g.term(0, true, p)
			if t.kind != kLit && t.kind != kRef && t.kind != kTLit {
				continue
			}
			return &rx{kind: kNeg, kids: []*rx{t}}
		case c < 97 && d > 0 && !inCap && !g.noNeg:
			return &rx{kind: kLA, neg: g.r.intn(2) == 0, kids: []*rx{g.alt(d-1, true, p)}}
		}
	}
}

func (g *ggGen) newField(p *ggProd, kind int, sub *ggProd) int {
	// sometimes reuse the previous string / []string field (accumulation)
	n := len(p.fkinds)
	if sub == nil && n > 0 && g.r.intn(4) == 0 && (p.fkinds[n-1] == fStr || p.fkinds[n-1] == fStrs) && (kind == fStr || kind == fStrs) {
		return n - 1
	}
	p.fkinds = append(p.fkinds, kind)
	p.subs = append(p.subs, sub)
	return n
}

func (g *ggGen) group(d int, inCap bool, p *ggProd) *rx {
	modes := []int{mOnce, mOpt, mStar, mPlus, mNonEmpty}
	for i := 0; i < 30; i++ {
		m := modes[g.r.intn(len(modes))]
		mark := len(p.fkinds)
		body := g.alt(d, inCap, p)
		if (m == mStar || m == mPlus) && g.nullable(body) {
			// a repetition body that can match nothing is a grammar bug
			p.fkinds, p.subs = p.fkinds[:mark], p.subs[:mark]
			continue
		}
		return &rx{kind: kGrp, mode: m, kids: []*rx{body}}
	}
	return &rx{kind: kLit, s: "a"}
}

func (g *ggGen) seq(d int, inCap bool, p *ggProd) *rx {
	n := 1 + g.r.intn(3)
	s := &rx{kind: kSeq}
	for i := 0; i < n; i++ {
		s.kids = append(s.kids, g.term(d, inCap, p))
	}
	if len(s.kids) == 1 {
		return s.kids[0]
	}
	return s
}

func (g *ggGen) alt(d int, inCap bool, p *ggProd) *rx {
	n := 1
	if g.r.intn(3) == 0 {
		n = 2 + g.r.intn(2)
	}
	if n == 1 {
		return g.seq(d, inCap, p)
	}
	a := &rx{kind: kAlt}
	for i := 0; i < n; i++ {
		for j := 0; ; j++ {
			mark := len(p.fkinds)
			s := g.seq(d, inCap, p)
			if !g.nullable(s) {
				a.kids = append(a.kids, s)
				break
			}
			p.fkinds, p.subs = p.fkinds[:mark], p.subs[:mark]
			if j > 20 {
				a.kids = append(a.kids, &rx{kind: kLit, s: "a"})
				break
			}
		}
	}
	return a
}

func ggHasCap(e *rx) bool {
	if e.kind == kCap || e.kind == kSub {
		return true
	}
	if e.kind == kLA {
		return false
	}
	for _, k := range e.kids {
		if ggHasCap(k) {
			return true
		}
	}
	return false
}

func (g *ggGen) prod(d int) *ggProd {
	for {
		p := &ggProd{}
		saved := g.nprod
		p.expr = g.alt(d, false, p)
		if ggHasCap(p.expr) && !g.nullable(p.expr) {
			return p
		}
		g.nprod = saved
	}
}

// ---------- tag printer (independent of grammar.go and of the tag parser) ----------

type ggChunk struct {
	s     string
	field int // -1: belongs to the next explicit field
}

func (p *ggProd) chunks() []ggChunk {
	var out []ggChunk
	emit := func(s string, f int) { out = append(out, ggChunk{s, f}) }
	var pr func(e *rx, top bool)
	pr = func(e *rx, top bool) {
		switch e.kind {
		case kLit:
			emit(strconv.Quote(e.s), -1)
		case kTLit:
			emit(strconv.Quote(e.s)+":"+e.typ, -1)
		case kRef:
			emit(e.typ, -1)
		case kSeq:
			if !top {
				emit("(", -1)
			}
			for _, k := range e.kids {
				pr(k, false)
			}
			if !top {
				emit(")", -1)
			}
		case kAlt:
			if !top {
				emit("(", -1)
			}
			for i, k := range e.kids {
				if i > 0 {
					emit("|", -1)
				}
				pr(k, true)
			}
			if !top {
				emit(")", -1)
			}
		case kGrp:
			emit("(", -1)
			pr(e.kids[0], true)
			emit(")", -1)
			switch e.mode {
			case mOpt:
				emit("?", -1)
			case mStar:
				emit("*", -1)
			case mPlus:
				emit("+", -1)
			case mNonEmpty:
				emit("!", -1)
			}
		case kCap:
			emit("@", e.field)
			k := e.kids[0]
			if k.kind == kSeq || k.kind == kAlt || (k.kind == kGrp && k.mode != mOnce) {
				emit("(", e.field)
				pr(k, true)
				emit(")", e.field)
			} else {
				pr(k, false)
			}
		case kSub:
			emit("@@", e.field)
		case kNeg:
			emit("~", -1)
			if k := e.kids[0]; k.kind == kGrp && k.mode != mOnce {
				// "~( x )+" is read as ( ~( x ) )+: a negated group with a modifier
				// needs parentheses of its own
				emit("(", -1)
				pr(k, false)
				emit(")", -1)
			} else {
				pr(e.kids[0], false)
			}
		case kLA:
			if e.neg {
				emit("(?!", -1)
			} else {
				emit("(?=", -1)
			}
			pr(e.kids[0], true)
			emit(")", -1)
		}
	}
	pr(p.expr, true)
	return out
}

// tags distributes the chunks over the fields: a chunk without a field goes
// to the field of the next chunk that has one (tags are lexed field by field,
// in order, as one token stream).
func (p *ggProd) tags() []string {
	cs := p.chunks()
	tags := make([]string, len(p.fkinds))
	cur := 0
	for i := range cs {
		f := cs[i].field
		if f < 0 {
			for j := i; j < len(cs); j++ {
				if cs[j].field >= 0 {
					f = cs[j].field
					break
				}
			}
			if f < 0 {
				f = len(tags) - 1
			}
		}
		if f < cur {
			f = cur
		}
		cur = f
		tags[f] += " " + cs[i].s
	}
	return tags
}

func (p *ggProd) rtype() reflect.Type {
	if p.rt != nil {
		return p.rt
	}
	tags := p.tags()
	fields := make([]reflect.StructField, 0, len(p.fkinds))
	for i, k := range p.fkinds {
		var t reflect.Type
		switch k {
		case fStr:
			t = reflect.TypeOf("")
		case fStrs:
			t = reflect.TypeOf([]string{})
		case fBool:
			t = reflect.TypeOf(true)
		case fTok:
			t = reflect.TypeOf(lexer.Token{})
		case fToks:
			t = reflect.TypeOf([]lexer.Token{})
		case fSubP:
			t = reflect.PtrTo(p.subs[i].rtype())
		case fSubPS:
			t = reflect.SliceOf(reflect.PtrTo(p.subs[i].rtype()))
		}
		tag := tags[i]
		if tag == "" {
			tag = " "
		}
		fields = append(fields, reflect.StructField{Name: "F" + strconv.Itoa(i), Type: t, Tag: reflect.StructTag(tag)})
	}
	// every generated node also records its position and tokens
	fields = append(fields,
		reflect.StructField{Name: "Pos", Type: reflect.TypeOf(lexer.Position{})},
		reflect.StructField{Name: "EndPos", Type: reflect.TypeOf(lexer.Position{})},
		reflect.StructField{Name: "Tokens", Type: reflect.TypeOf([]lexer.Token{})})
	p.rt = reflect.StructOf(fields)
	return p.rt
}

// vhGeneratedProd returns the generator-side root production (with its
// struct type built) of generated grammar idx.
func vhGeneratedProd(idx int, noToks, noNeg bool, lits []string) *ggProd {
	r := &vhRand{s: uint64(vhGenSeed)*0x9E3779B97F4A7C15 + uint64(idx+1)*0xD1B54A32D192ED03 + 1}
	for i := 0; i < 4; i++ {
		r.next()
	}
	g := &ggGen{r: r, noToks: noToks, noNeg: noNeg, lits: lits}
	depth := 2
	if idx%12 == 11 {
		// every twelfth grammar is one level deeper (groups with repetitions inside
		// captures) and may negate a whole group
		depth, g.deep = 3, true
	}
	root := g.prod(depth)
	root.rtype()
	return root
}

// vhGenerated returns the root struct type of generated grammar number idx.
func vhGenerated(idx int, noToks, noNeg bool) reflect.Type {
	return vhGeneratedProd(idx, noToks, noNeg, nil).rt
}
