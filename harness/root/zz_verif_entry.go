package participle

// C15 — all entry points agree.

import (
	"bytes"
	"reflect"
	"strings"
	"text/scanner"
	"unicode/utf8"

	"github.com/alecthomas/participle/v2/lexer"
)

const vhMaxBytes = 3 // @tier quick=3 thorough=4

// vhSameError: both nil, or errors with the same position and message.
func vhSameError(a, b error, tag string) {
	vAssert((a == nil) == (b == nil), tag+": one entry point fails, the other succeeds")
	if a == nil {
		return
	}
	pa, oka := a.(interface{ Position() lexer.Position })
	pb, okb := b.(interface{ Position() lexer.Position })
	vAssert(oka == okb, tag+": errors of different kinds")
	if oka {
		vAssert(pa.Position() == pb.Position(), tag+": errors at different positions")
	}
	vAssert(a.Error() == b.Error(), tag+": different error text")
}

// --- Trace changes nothing but the trace output; ParseFromLexer leaves the
// caller's lexer at the first unconsumed token.

type vhSink struct{ n int }

func (s *vhSink) Write(b []byte) (int, error) {
	s.n += len(b)
	return len(b), nil
}

func vhC15Trace[G any](cfg vhConfig) {
	toks := vhStream()
	k := vInt("lookahead")
	trailing := vBool("allowTrailing")
	def := &vhStreamDef{toks: toks}
	p := vhBuild[G](cfg, def, k)
	a1, e1 := p.ParseString("f", "", AllowTrailing(trailing))
	sink := &vhSink{}
	a2, e2 := p.ParseString("f", "", AllowTrailing(trailing), Trace(sink))
	vhSameError(e1, e2, "C15: Trace")
	var g G
	root := vhGrammar(reflect.TypeOf(g), cfg.unions)
	if a1 != nil && a2 != nil {
		vhSameAST(vhActual(root, reflect.ValueOf(a1).Elem()), vhActual(root, reflect.ValueOf(a2).Elem()), "C15: Trace")
	}
	vAssert(sink.n > 0, "C15: Trace wrote nothing")
	vReach("traced")
}

func vhC15Cursor[G any](cfg vhConfig) {
	toks := vhStream()
	k := vInt("lookahead")
	def := &vhStreamDef{toks: toks}
	p := vhBuild[G](cfg, def, k)
	var elided []lexer.TokenType
	for _, e := range cfg.elide {
		elided = append(elided, cfg.symbols()[e])
	}
	pl, uerr := lexer.Upgrade(&vhStreamLexer{toks: toks}, elided...)
	vAssert(uerr == nil, "Upgrade failed")
	_, err := p.ParseFromLexer(pl, AllowTrailing(true))
	if err != nil {
		vReach("error")
		return
	}
	var g G
	root := vhGrammar(reflect.TypeOf(g), cfg.unions)
	rc := &refctx{T: toks, elide: cfg.elideMap(), k: k, sym: cfg.symbols(), ci: cfg.ciMap()}
	accept, _, end := rc.parse(root, true)
	if rc.bug || !accept {
		return
	}
	vReach("accept")
	vAssert(int(pl.RawCursor()) == end, "C15: after ParseFromLexer the caller's lexer is not at the first unconsumed raw token")
	vAssert(pl.Peek().Pos.Offset == rc.nx(end), "C15: after ParseFromLexer Peek is not the first token the parse did not consume")
}

// --- Routing: Parse / ParseString / ParseBytes / ParseFromLexer over the
// parser's own lexer, with a real stateful lexer on symbolic input bytes.

type vgWords struct {
	Words []string `@Ident*`
	N     string   `@Num?`
}

func vhWordsDef() *lexer.StatefulDefinition {
	return lexer.MustSimple([]lexer.SimpleRule{{Name: "Ident", Pattern: `[a-zA-Z]+`}, {Name: "Num", Pattern: `[0-9]+`}, {Name: "ws", Pattern: ` +`}})
}

func vhBytesInput() string {
	n := vChoose("len", vhMaxBytes+1)
	return vString("in", n)
}

func vhRouting(opts ...Option) {
	in := vhBytesInput()
	fn := ""
	if vBool("named") {
		fn = "f"
	}
	all := append([]Option{Lexer(vhWordsDef())}, opts...)
	p, err := Build[vgWords](all...)
	vAssert(err == nil, "catalogue grammar must build")
	root := vhGrammarOf(reflect.TypeOf(vgWords{}), nil)
	// per-call options must reach every entry point alike
	trailing := vBool("allowTrailing")
	s1, s2, s3, s4 := &vhSink{}, &vhSink{}, &vhSink{}, &vhSink{}
	a1, e1 := p.ParseString(fn, in, AllowTrailing(trailing), Trace(s1))
	a2, e2 := p.ParseBytes(fn, []byte(in), AllowTrailing(trailing), Trace(s2))
	a3, e3 := p.Parse(fn, strings.NewReader(in), AllowTrailing(trailing), Trace(s3))
	vhSameError(e1, e2, "C15: ParseString vs ParseBytes")
	vhSameError(e1, e3, "C15: ParseString vs Parse")
	vAssert(s1.n == s2.n && s1.n == s3.n, "C15: the Trace option is not applied alike by ParseString, ParseBytes and Parse")
	if e1 == nil {
		vReach("parsed")
	} else {
		vReach("failed")
	}
	same := func(x, y *vgWords, tag string) {
		vAssert((x == nil) == (y == nil), tag+": nil-ness of the AST differs")
		if x != nil {
			vhSameAST(vhActual(root, reflect.ValueOf(x).Elem()), vhActual(root, reflect.ValueOf(y).Elem()), tag)
		}
	}
	same(a1, a2, "C15: ParseString vs ParseBytes")
	same(a1, a3, "C15: ParseString vs Parse")

	// ParseFromLexer over the parser's own lexer
	lx, lerr := p.Lexer().Lex(fn, bytes.NewReader([]byte(in)))
	vAssert(lerr == nil, "Lex failed")
	pl, uerr := lexer.Upgrade(lx)
	if uerr != nil {
		vAssert(e1 != nil, "C15: lexing fails through Upgrade but ParseString succeeds")
		pu, ok1 := uerr.(interface{ Position() lexer.Position })
		p1, ok2 := e1.(interface{ Position() lexer.Position })
		vAssert(ok1 && ok2 && pu.Position() == p1.Position(), "C15: lexing error at a different position")
		return
	}
	a4, e4 := p.ParseFromLexer(pl, AllowTrailing(trailing), Trace(s4))
	vhSameError(e1, e4, "C15: ParseString vs ParseFromLexer")
	vAssert(s1.n == s4.n, "C15: the Trace option is not applied alike by ParseString and ParseFromLexer")
	same(a1, a4, "C15: ParseString vs ParseFromLexer")

	// Parser.Lex returns exactly the tokens the parse consumes
	ltoks, lexErr := p.Lex(fn, strings.NewReader(in))
	vAssert(lexErr == nil, "C15: Parser.Lex fails although lexing succeeded")
	got := pl.Range(0, lexer.RawCursor(len(ltoks)))
	vAssert(len(got) == len(ltoks), "C15: Parser.Lex token count differs from the parsed stream")
	for i := range ltoks {
		vAssert(ltoks[i] == got[i], "C15: Parser.Lex token differs from the parsed stream")
	}
}

func VH_C15_Routing()       { vhRouting() }
func VH_C15_RoutingMapped() { vhRouting(Upper("Ident")) }

// a lexer definition's Lex and LexString yield identical token streams
func VH_C15_LexEntryPoints() {
	in := vhBytesInput()
	def := vhWordsDef()
	l1, _ := def.LexString("f", in)
	l2, _ := def.Lex("f", strings.NewReader(in))
	t1, e1 := lexer.ConsumeAll(l1)
	t2, e2 := lexer.ConsumeAll(l2)
	vhSameError(e1, e2, "C15: LexString vs Lex")
	vAssert(len(t1) == len(t2), "C15: LexString vs Lex token count")
	for i := range t1 {
		vAssert(t1[i] == t2[i], "C15: LexString vs Lex token differs")
	}
	vReach("lexed")
}

func VH_C15_Trace_Alt() { vhC15Trace[vgAlt](vhElideWs) }
func VH_C15_Trace_Sub() { vhC15Trace[vgSub](vhNoElide) }
func VH_C15_Trace_Neg() { vhC15Trace[vgNeg](vhNoElide) }

// a root production implemented by user code (Parseable): ParseFromLexer must
// leave the caller's lexer where that code stopped
type vgRootParseable struct {
	N int
}

func (g *vgRootParseable) Parse(lex *lexer.PeekingLexer) error {
	for lex.Peek().Type == vhTA {
		lex.Next()
		g.N++
	}
	return nil
}

func VH_C15_Cursor_Parseable() {
	toks := vhStream()
	k := vInt("lookahead")
	p := vhBuild[vgRootParseable](vhElideWs, &vhStreamDef{toks: toks}, k)
	pl, uerr := lexer.Upgrade(&vhStreamLexer{toks: toks}, vhTWs)
	vAssert(uerr == nil, "Upgrade failed")
	g, err := p.ParseFromLexer(pl, AllowTrailing(true))
	vAssert(err == nil && g != nil, "C15: a Parseable root that returns nil must parse")
	n, end, i := 0, 0, 0
	for {
		j := i
		for !toks[j].EOF() && toks[j].Type == vhTWs {
			j++
		}
		if toks[j].EOF() || toks[j].Type != vhTA {
			break
		}
		n++
		i = j + 1
		end = i
	}
	vAssert(g.N == n, "C15: the Parseable root saw a different stream")
	vAssert(int(pl.RawCursor()) == end, "C15: after ParseFromLexer (Parseable root) the caller's lexer is not at the first unconsumed raw token")
	j := end
	for !toks[j].EOF() && toks[j].Type == vhTWs {
		j++
	}
	vAssert(pl.Peek().Pos.Offset == toks[j].Pos.Offset, "C15: after ParseFromLexer (Parseable root) Peek is not the first token the parse did not consume")
	if n > 0 {
		vReach("accept")
	}
}

func VH_C15_Cursor_Seq()   { vhC15Cursor[vgSeq](vhElideWs) }
func VH_C15_Cursor_Group() { vhC15Cursor[vgGroup](vhElideWs) }
func VH_C15_Cursor_Opt()   { vhC15Cursor[vgOpt](vhNoElide) }

func VH_C15_Canary() { VH_C01_Canary() }

// --- C06 at byte level: ParseString / ParseBytes on arbitrary bytes through
// the real stateful lexer: a value or a well-formed, located error.

func vhBytePos(in string, off int) (line, col int) {
	line, col = 1, 1
	for i := 0; i < off; {
		if in[i] == '\n' {
			line++
			col = 1
			i++
			continue
		}
		// one column per UTF-8 sequence start byte (tokens of the lexer end on rune boundaries)
		n := 1
		for i+n < off && in[i+n]&0xC0 == 0x80 {
			n++
		}
		i += n
		col++
	}
	return
}

func VH_C06_Bytes() {
	in := vhBytesInput()
	for i := 0; i < len(in); i++ {
		vAssume(in[i] < 0x80) // column arithmetic on ASCII; multi-byte columns are C04's subject
	}
	vhC06BytesIn(in)
}

// VH_C06_LongError: a long unlexable remainder (the error message quotes a
// bounded sample of it): 13..17 concrete bytes that no rule matches, followed by
// an arbitrary tail (any bytes, also invalid or truncated UTF-8).
func VH_C06_LongError() {
	prefix := "?????????????????"[:13+vChoose("prefix", 5)]
	n := vChoose("len", vhMaxBytes+1)
	tail := vString("in", n)
	p, berr := Build[vgWords](Lexer(vhWordsDef()))
	vAssert(berr == nil, "catalogue grammar must build")
	ast, err := p.ParseString("file.txt", prefix+tail)
	vAssert(err != nil && ast == nil, "C06: a lexing failure must come with a nil AST and an error")
	perr, ok := err.(interface{ Position() lexer.Position })
	vAssert(ok && perr.Position().Offset == 0 && perr.Position().Filename == "file.txt", "C06: lexing error is not located at the unlexable text")
	vReach("lex-error")
}

func vhC06BytesIn(in string) {
	fn := "file.txt"
	p, berr := Build[vgWords](Lexer(vhWordsDef()))
	vAssert(berr == nil, "catalogue grammar must build")
	ast, err := p.ParseString(fn, in)
	if err == nil {
		vAssert(ast != nil, "C06: nil AST with nil error")
		vReach("ok")
		return
	}
	perr, ok := err.(interface {
		Position() lexer.Position
		Message() string
	})
	vAssert(ok, "C06: error without Position()/Message()")
	pos := perr.Position()
	vAssert(pos.Filename == fn, "C06: error position does not carry the supplied filename")
	vAssert(pos.Offset >= 0 && pos.Offset <= len(in), "C06: error offset outside the input")
	line, col := vhBytePos(in, pos.Offset)
	vAssert(pos.Line == line && pos.Column == col, "C06: error line/column inconsistent with its offset")
	vAssert(err.Error() == vhSpecError(pos, perr.Message()), "C06: Error() is not [file:]line:col: message")
	if _, lexFail := err.(*lexer.Error); lexFail {
		vAssert(ast == nil, "C06: a lexing failure must come with a nil AST")
		vReach("lex-error")
	} else {
		vAssert(ast != nil, "C06: a parse failure must come with a non-nil partial AST")
		_, isPE := err.(Error)
		vAssert(isPE, "C06: parse error does not implement participle.Error")
		vReach("parse-error")
	}
}

// vhRunePos: line and column of a byte offset, one column per character as
// utf8 decodes the text (an invalid byte is one character).
func vhRunePos(in string, off int) (line, col int) {
	line, col = 1, 1
	for i := 0; i < off; {
		if in[i] == '\n' {
			line++
			col = 1
			i++
			continue
		}
		_, n := utf8.DecodeRuneInString(in[i:])
		i += n
		col++
	}
	return
}

// VH_C06_BytesMB: an elided token that spans a line break and continues with
// multi-byte characters, then arbitrary bytes: the error is located by
// characters, not bytes.
func VH_C06_BytesMB() {
	def := lexer.MustSimple([]lexer.SimpleRule{{Name: "Ident", Pattern: `[a-z]+`}, {Name: "Num", Pattern: `[0-9]+`}, {Name: "ws", Pattern: `[ \né→]+`}})
	prefixes := []string{"a\né", " \n→é", "\n"}
	in := prefixes[vChoose("prefix", len(prefixes))] + vString("in", vChoose("len", 3))
	fn := "file.txt"
	p, berr := Build[vgWords](Lexer(def))
	vAssert(berr == nil, "catalogue grammar must build")
	ast, err := p.ParseString(fn, in)
	if err == nil {
		vAssert(ast != nil, "C06: nil AST with nil error")
		vReach("ok")
		return
	}
	perr, ok := err.(interface {
		Position() lexer.Position
		Message() string
	})
	vAssert(ok, "C06: error without Position()/Message()")
	pos := perr.Position()
	vAssert(pos.Filename == fn, "C06: error position does not carry the supplied filename")
	vAssert(pos.Offset >= 0 && pos.Offset <= len(in), "C06: error offset outside the input")
	line, col := vhRunePos(in, pos.Offset)
	vAssert(pos.Line == line && pos.Column == col, "C06: error line/column inconsistent with its offset")
	vAssert(err.Error() == vhSpecError(pos, perr.Message()), "C06: Error() is not [file:]line:col: message")
	vReach("error")
}

// VH_C06_Unquote: a parser built with Unquote on a token type whose tokens can
// be as short as one byte (nothing obliges a lexer to hand Unquote only
// well-formed literals): a value or a located error, never a panic.
func VH_C06_Unquote() {
	toks := vhStream()
	p, berr := Build[vgSeq](Lexer(&vhStreamDef{toks: toks}), Elide("Ws"), Unquote("A", "B"), UseLookahead(2))
	vAssert(berr == nil, "catalogue grammar must build")
	ast, err := p.ParseString("f", "")
	if err == nil {
		vAssert(ast != nil, "C06: nil AST with nil error")
		vReach("ok")
		return
	}
	perr, ok := err.(Error)
	vAssert(ok, "C06: error does not implement participle.Error")
	pos := perr.Position()
	vAssert(pos.Filename == "f" && pos.Offset >= 0 && pos.Offset < len(toks), "C06: error position is not a location of the input")
	vAssert(err.Error() == vhSpecError(pos, perr.Message()), "C06: Error() is not [file:]line:col: message")
	vReach("error")
}

// VH_C06_DefaultLexer: the default (text/scanner) lexer on arbitrary bytes from
// an alphabet of quotes, escapes, comments, NUL and invalid UTF-8: a value or a
// well-formed, located error.
func VH_C06_DefaultLexer() {
	in := vhScanInput()
	fn := "file.txt"
	p, berr := Build[vgScanWords]()
	vAssert(berr == nil, "catalogue grammar must build")
	ast, err := p.ParseString(fn, in)
	if err == nil {
		vAssert(ast != nil, "C06: nil AST with nil error")
		vReach("ok")
		return
	}
	perr, ok := err.(interface {
		Position() lexer.Position
		Message() string
	})
	vAssert(ok, "C06: error without Position()/Message()")
	pos := perr.Position()
	vAssert(pos.Filename == fn, "C06: error position does not carry the supplied filename")
	vAssert(pos.Offset >= 0 && pos.Offset <= len(in), "C06: error offset outside the input")
	line, col := vhRunePos(in, pos.Offset)
	vAssert(pos.Line == line && pos.Column == col, "C06: error line/column inconsistent with its offset")
	vAssert(err.Error() == vhSpecError(pos, perr.Message()), "C06: Error() is not [file:]line:col: message")
	if _, lexFail := err.(*lexer.Error); lexFail {
		vAssert(ast == nil, "C06: a lexing failure must come with a nil AST")
		vReach("lex-error")
	} else {
		vAssert(ast != nil, "C06: a parse failure must come with a non-nil partial AST")
		_, isPE := err.(Error)
		vAssert(isPE, "C06: parse error does not implement participle.Error")
		vReach("parse-error")
	}
}

// --- Routing with the default (text/scanner) lexer: malformed literals,
// comments, NUL and invalid UTF-8 make text/scanner report errors, which every
// entry point must deliver identically.

type vgScanWords struct {
	Words []string `( @Ident | @String | @Int | @Char | @RawString | @Float | @( "+" | "-" | "." | "/" | "*" ) )*`
}

const vhScanBytes = 3 // @tier quick=3 thorough=4

var vhScanAlphabet = []byte{'"', 'a', '\\', '\n', '`', '\'', '1', ' ', '/', '*', 0x80, 0, 'e', '.', '+'}

func vhScanInput() string {
	n := vChoose("len", vhScanBytes+1)
	in := vString("in", n)
	for i := 0; i < n; i++ {
		ok := false
		for _, c := range vhScanAlphabet {
			ok = vOr(ok, in[i] == c)
		}
		vAssume(ok)
	}
	return in
}

func vhScanOutcome(toks []lexer.Token, err error) (n int, msg string) {
	if err != nil {
		return -1, err.Error()
	}
	return len(toks), ""
}

func VH_C15_RoutingDefault() {
	in := vhScanInput()
	p, err := Build[vgScanWords]()
	vAssert(err == nil, "catalogue grammar must build")
	a1, e1 := p.ParseString("f", in)
	a2, e2 := p.ParseBytes("f", []byte(in))
	a3, e3 := p.Parse("f", strings.NewReader(in))
	vhSameError(e1, e2, "C15: ParseString vs ParseBytes (default lexer)")
	vhSameError(e1, e3, "C15: ParseString vs Parse (default lexer)")
	same := func(x, y *vgScanWords, tag string) {
		vAssert((x == nil) == (y == nil), tag+": nil-ness of the AST differs")
		if x != nil {
			vAssert(len(x.Words) == len(y.Words), tag+": ASTs differ")
			for i := range x.Words {
				vAssert(x.Words[i] == y.Words[i], tag+": ASTs differ")
			}
		}
	}
	same(a1, a2, "C15: ParseString vs ParseBytes (default lexer)")
	same(a1, a3, "C15: ParseString vs Parse (default lexer)")
	if e1 == nil {
		vReach("parsed")
	} else {
		vReach("failed")
	}
}

// a text/scanner definition with a configuration callback (comments are
// tokens): every entry point must use the configured scanner
type vgScanComments struct {
	Words []string `( @Ident | @Comment | @Int | @( "+" | "-" | "." | "/" | "*" ) )*`
}

func VH_C15_RoutingConfigured() {
	in := vhScanInput()
	def := lexer.NewTextScannerLexer(func(s *scanner.Scanner) { s.Mode &^= scanner.SkipComments })
	p, err := Build[vgScanComments](Lexer(def))
	vAssert(err == nil, "catalogue grammar must build")
	a1, e1 := p.ParseString("f", in)
	a2, e2 := p.ParseBytes("f", []byte(in))
	a3, e3 := p.Parse("f", strings.NewReader(in))
	vhSameError(e3, e1, "C15: Parse vs ParseString (configured text/scanner lexer)")
	vhSameError(e3, e2, "C15: Parse vs ParseBytes (configured text/scanner lexer)")
	same := func(x, y *vgScanComments, tag string) {
		vAssert((x == nil) == (y == nil), tag+": nil-ness of the AST differs")
		if x != nil {
			vAssert(len(x.Words) == len(y.Words), tag+": ASTs differ")
			for i := range x.Words {
				vAssert(x.Words[i] == y.Words[i], tag+": ASTs differ")
			}
		}
	}
	same(a3, a1, "C15: Parse vs ParseString (configured text/scanner lexer)")
	same(a3, a2, "C15: Parse vs ParseBytes (configured text/scanner lexer)")
	if e1 == nil {
		vReach("parsed")
	} else {
		vReach("failed")
	}
}

// Lex, LexString and LexBytes of the text/scanner definition agree
func VH_C15_LexEntryPointsDefault() {
	in := vhScanInput()
	def := lexer.TextScannerLexer
	l1, le1 := def.Lex("f", strings.NewReader(in))
	vAssert(le1 == nil, "Lex failed")
	t1, e1 := lexer.ConsumeAll(l1)
	if sd, ok := def.(lexer.StringDefinition); ok {
		l2, le2 := sd.LexString("f", in)
		vAssert(le2 == nil, "LexString failed")
		t2, e2 := lexer.ConsumeAll(l2)
		vhSameError(e1, e2, "C15: Lex vs LexString (text/scanner)")
		vAssert(len(t1) == len(t2), "C15: Lex vs LexString token count (text/scanner)")
	}
	if bd, ok := def.(lexer.BytesDefinition); ok {
		l3, le3 := bd.LexBytes("f", []byte(in))
		vAssert(le3 == nil, "LexBytes failed")
		t3, e3 := lexer.ConsumeAll(l3)
		vhSameError(e1, e3, "C15: Lex vs LexBytes (text/scanner)")
		vAssert(len(t1) == len(t3), "C15: Lex vs LexBytes token count (text/scanner)")
		for i := range t1 {
			vAssert(t1[i] == t3[i], "C15: Lex vs LexBytes token differs (text/scanner)")
		}
	}
	if e1 != nil {
		vReach("lex-error")
	} else {
		vReach("lexed")
	}
}
