package participle

// Parser-side harnesses (C01, C02, C06, C10, C11, C13, C15): real Build and
// real Parse on a symbolic token stream, compared with the reference
// semantics of zz_verif_ref.go.

import (
	"io"
	"reflect"
	"strconv"
	"strings"

	"github.com/alecthomas/participle/v2/lexer"
)

const vhMaxTokens = 5 // @tier quick=5 thorough=6

// ---------- symbolic token streams ----------

const (
	vhTA  lexer.TokenType = -2
	vhTB  lexer.TokenType = -3
	vhTC  lexer.TokenType = -4
	vhTWs lexer.TokenType = -5
	vhTCm lexer.TokenType = -6
)

var vhSymbols = map[string]lexer.TokenType{"EOF": lexer.EOF, "A": vhTA, "B": vhTB, "C": vhTC, "Ws": vhTWs, "Cm": vhTCm}

// vhStreamDef is a lexer.Definition whose lexers replay a prepared token
// slice; the reader content is ignored.
type vhStreamDef struct {
	toks []lexer.Token
	syms map[string]lexer.TokenType
}

func (d *vhStreamDef) Symbols() map[string]lexer.TokenType {
	if d.syms != nil {
		return d.syms
	}
	return vhSymbols
}

// a second numbering of the same symbols: token types far from EOF (the 69th
// symbol of a lexer) and positive ones (hand-written definitions)
var vhFarSymbols = map[string]lexer.TokenType{"EOF": lexer.EOF, "A": -2, "B": 3, "C": -64, "Ws": -70, "Cm": 9}

func (d *vhStreamDef) Lex(filename string, r io.Reader) (lexer.Lexer, error) {
	return &vhStreamLexer{toks: d.toks}, nil
}

type vhStreamLexer struct {
	toks []lexer.Token
	i    int
}

func (l *vhStreamLexer) Next() (lexer.Token, error) {
	t := l.toks[l.i]
	if l.i < len(l.toks)-1 {
		l.i++
	}
	return t, nil
}

// vhStream returns n <= vhMaxTokens tokens of arbitrary type (any value but
// EOF) and arbitrary one-byte text, followed by EOF.  Positions are concrete
// and unique (Offset == index).
func vhStream() []lexer.Token {
	// MaxIterations is a documented, user-settable limit (default 1 000 000);
	// a small value keeps a non-progressing repetition within the
	// executor's instruction budget
	MaxIterations = 64
	n := vChoose("ntokens", vhMaxTokens+1)
	toks := make([]lexer.Token, 0, n+1)
	for i := 0; i < n; i++ {
		ty := lexer.TokenType(vInt("type"))
		vAssume(ty != lexer.EOF)
		toks = append(toks, lexer.Token{Type: ty, Value: vString("value", 1), Pos: lexer.Position{Filename: "f", Offset: i, Line: 1, Column: i + 1}})
	}
	toks = append(toks, lexer.EOFToken(lexer.Position{Filename: "f", Offset: n, Line: 1, Column: n + 1}))
	return toks
}

// ---------- configuration of one check ----------

type vhConfig struct {
	elide  []string // elided token names
	ci     []string // case-insensitive token names
	unions map[reflect.Type][]reflect.Type
	opts   []Option                   // extra options (Union[...])
	syms   map[string]lexer.TokenType // symbol numbering (nil: vhSymbols)
}

func (c vhConfig) symbols() map[string]lexer.TokenType {
	if c.syms != nil {
		return c.syms
	}
	return vhSymbols
}

func (c vhConfig) elideMap() map[lexer.TokenType]bool {
	m := map[lexer.TokenType]bool{}
	for _, e := range c.elide {
		m[c.symbols()[e]] = true
	}
	return m
}

func (c vhConfig) ciMap() map[lexer.TokenType]bool {
	m := map[lexer.TokenType]bool{}
	for _, e := range c.ci {
		m[c.symbols()[e]] = true
	}
	return m
}

// vhBuild returns a parser for G over the given token stream with lookahead
// k.  The real Build runs once per worker (vMemo: its result is shared and
// frozen); each path works on a shallow copy of the Parser value into which
// the stream definition is put and to which the real UseLookahead option is
// applied.
func vhBuild[G any](cfg vhConfig, def *vhStreamDef, k int) *Parser[G] {
	var g G
	key := "build:" + reflect.TypeOf(&g).String() + ":" + strings.Join(cfg.elide, ",") + ":" + strings.Join(cfg.ci, ",")
	if cfg.syms != nil {
		key += ":far"
	}
	def.syms = cfg.syms
	base := vMemo(key, func() interface{} {
		opts := []Option{Lexer(&vhStreamDef{syms: cfg.syms})}
		if len(cfg.elide) > 0 {
			opts = append(opts, Elide(cfg.elide...))
		}
		if len(cfg.ci) > 0 {
			opts = append(opts, CaseInsensitive(cfg.ci...))
		}
		opts = append(opts, cfg.opts...)
		p, err := Build[G](opts...)
		vAssert(err == nil, "catalogue grammar must build")
		return p
	}).(*Parser[G])
	q := *base
	q.lex = def
	vAssert(UseLookahead(k)(&q.parserOptions) == nil, "UseLookahead failed")
	return &q
}

// vhGrammar is vhGrammarOf, computed once per worker.
func vhGrammar(t reflect.Type, unions map[reflect.Type][]reflect.Type) *rprod {
	return vMemo("grammar:"+t.String(), func() interface{} { return vhGrammarOf(t, unions) }).(*rprod)
}

// vhC01 is the core differential check: accept/reject and the AST.
func vhC01[G any](cfg vhConfig) {
	toks := vhStream()
	k := vInt("lookahead")
	trailing := vBool("allowTrailing")
	def := &vhStreamDef{toks: toks}
	p := vhBuild[G](cfg, def, k)
	ast, err := p.ParseString("f", "", AllowTrailing(trailing))

	var g G
	root := vhGrammar(reflect.TypeOf(g), cfg.unions)
	rc := &refctx{T: toks, elide: cfg.elideMap(), k: k, sym: cfg.symbols(), ci: cfg.ciMap()}
	accept, want, _ := rc.parse(root, trailing)
	if rc.bug {
		vReach("grammar-bug") // non-progressing accepted branch: outside C01
		return
	}
	if !accept {
		vReach("reject")
		vAssert(err != nil, "C01: the grammar's meaning rejects this stream but Parse succeeded")
		return
	}
	vReach("accept")
	vAssert(err == nil, "C01: the grammar's meaning accepts this stream but Parse failed")
	vAssert(ast != nil, "C06: nil AST with nil error")
	vhSameAST(rc.expect(want), vhActual(root, reflect.ValueOf(ast).Elem()), "C01")
}

// vhC06 checks the shape of the outcome: a value with a nil error, or a
// well-formed located error with a partial AST.
func vhC06[G any](cfg vhConfig) {
	toks := vhStream()
	k := vInt("lookahead")
	trailing := vBool("allowTrailing")
	def := &vhStreamDef{toks: toks}
	p := vhBuild[G](cfg, def, k)
	ast, err := p.ParseString("f", "", AllowTrailing(trailing))
	vhCheckOutcome(toks, ast != nil, err)
}

// vhCheckOutcome: a value with a nil error, or a well-formed located error
// with a partial AST.
func vhCheckOutcome(toks []lexer.Token, haveAST bool, err error) {
	if err == nil {
		vReach("ok")
		vAssert(haveAST, "C06: nil AST with nil error")
		return
	}
	vReach("error")
	vAssert(haveAST, "C06: a parse failure must come with a non-nil partial AST")
	perr, ok := err.(Error)
	vAssert(ok, "C06: error does not implement participle.Error")
	pos := perr.Position()
	// the position is that of a token of the stream (or EOF)
	found := false
	for _, t := range toks {
		if t.Pos == pos {
			found = true
		}
	}
	vAssert(found, "C06: error position is not the position of a token of the input")
	if ute, ok := err.(*UnexpectedTokenError); ok {
		vAssert(ute.Unexpected == toks[pos.Offset], "C06: UnexpectedTokenError does not carry the token at its position")
		vReach("unexpected-token")
	}
	vAssert(err.Error() == vhSpecError(pos, perr.Message()), "C06: Error() is not [file:]line:col: message")
}

// vhSpecError is the documented rendering of a located error.
func vhSpecError(pos lexer.Position, msg string) string {
	s := ""
	if pos.Filename != "" {
		s += pos.Filename + ":"
	}
	if pos.Line != 0 || pos.Column != 0 {
		s += strconv.Itoa(pos.Line) + ":" + strconv.Itoa(pos.Column) + ":"
	}
	if s != "" {
		return s + " " + msg
	}
	return msg
}

// vhC13: more lookahead never changes a successful parse.
func vhC13[G any](cfg vhConfig) {
	toks := vhStream()
	k1 := vInt("lookahead")
	k2 := vInt("lookahead2")
	// k2 allows more than k1
	vAssume(vAnd(k1 >= 0, vOr(k2 < 0, k2 > k1)))
	trailing := vBool("allowTrailing")
	def := &vhStreamDef{toks: toks}
	p1 := vhBuild[G](cfg, def, k1)
	p2 := vhBuild[G](cfg, def, k2)
	a1, e1 := p1.ParseString("f", "", AllowTrailing(trailing))
	if e1 != nil {
		vReach("fails-with-k")
		return
	}
	vReach("succeeds-with-k")
	a2, e2 := p2.ParseString("f", "", AllowTrailing(trailing))
	vAssert(e2 == nil, "C13: parse succeeds with lookahead k but fails with more lookahead")
	var g G
	root := vhGrammar(reflect.TypeOf(g), cfg.unions)
	vhSameAST(vhActual(root, reflect.ValueOf(a1).Elem()), vhActual(root, reflect.ValueOf(a2).Elem()), "C13")
}

// vhC10: the parse depends only on the non-elided tokens: parse the raw
// stream S and the stream with every elided token removed.
func vhC10[G any](cfg vhConfig) {
	toks := vhStream()
	k := vInt("lookahead")
	trailing := vBool("allowTrailing")
	elide := cfg.elideMap()
	var g0 G
	lits := vhUntypedLiterals(vhGrammar(reflect.TypeOf(g0), cfg.unions))
	var filtered []lexer.Token
	dropped := 0
	for _, t := range toks {
		if !t.EOF() && elide[t.Type] {
			// C10 speaks of grammars that never name an elided token: an
			// untyped literal that spells out an elided token's exact text
			// asks for it, so such streams are outside the statement.
			for _, l := range lits {
				vAssume(t.Value != l)
			}
			dropped++
			continue
		}
		filtered = append(filtered, t)
	}
	if dropped > 0 {
		vReach("has-elided")
	}
	p := vhBuild[G](cfg, &vhStreamDef{toks: toks}, k)
	pf := vhBuild[G](cfg, &vhStreamDef{toks: filtered}, k)
	a1, e1 := p.ParseString("f", "", AllowTrailing(trailing))
	a2, e2 := pf.ParseString("f", "", AllowTrailing(trailing))
	vAssert((e1 == nil) == (e2 == nil), "C10: acceptance changes when elided tokens are removed")
	if e1 != nil {
		return
	}
	vReach("accepted")
	var g G
	root := vhGrammar(reflect.TypeOf(g), cfg.unions)
	// a []lexer.Token capture is the run from its first to its last matched
	// token (C01), so elided tokens lying inside the run belong to it: the
	// two runs are compared without them
	with := vhActual(root, reflect.ValueOf(a1).Elem())
	vhDropElidedFromRuns(with, toks, elide)
	vhSameAST(with, vhActual(root, reflect.ValueOf(a2).Elem()), "C10")
}

func vhDropElidedFromRuns(v *vnode, toks []lexer.Token, elide map[lexer.TokenType]bool) {
	for i := range v.fields {
		f := &v.fields[i]
		if f.kind == fToks {
			var kept []int
			for _, idx := range f.toks {
				if !elide[toks[idx].Type] {
					kept = append(kept, idx)
				}
			}
			f.toks = kept
		}
		for _, sub := range f.subs {
			vhDropElidedFromRuns(sub, toks, elide)
		}
	}
}

// vhUntypedLiterals lists the texts of the untyped literals of a grammar.
func vhUntypedLiterals(root *rprod) []string {
	var out []string
	seen := map[*rprod]bool{}
	var walkP func(p *rprod)
	var walk func(e *rx)
	walk = func(e *rx) {
		if e == nil {
			return
		}
		if e.kind == kLit {
			out = append(out, e.s)
		}
		if e.kind == kSub {
			walkP(e.prod)
		}
		for _, k := range e.kids {
			walk(k)
		}
	}
	walkP = func(p *rprod) {
		if seen[p] {
			return
		}
		seen[p] = true
		for _, m := range p.members {
			walkP(m)
		}
		walk(p.expr)
	}
	walkP(root)
	return out
}

// vhC11: positions and token lists of every node.
func vhC11[G any](cfg vhConfig) {
	toks := vhStream()
	k := vInt("lookahead")
	def := &vhStreamDef{toks: toks}
	p := vhBuild[G](cfg, def, k)
	ast, err := p.ParseString("f", "", AllowTrailing(true))
	if err != nil {
		return
	}
	var g G
	root := vhGrammar(reflect.TypeOf(g), cfg.unions)
	rc := &refctx{T: toks, elide: cfg.elideMap(), k: k, sym: cfg.symbols(), ci: cfg.ciMap()}
	accept, want, end := rc.parse(root, true)
	if rc.bug || !accept {
		return
	}
	vReach("accept")
	got := vhActual(root, reflect.ValueOf(ast).Elem())
	vhCheckPositions(rc, rc.expect(want), got, 0, end, true)
}

// vhCheckPositions walks expected (with reference ranges) and actual nodes.
func vhCheckPositions(rc *refctx, want, got *vnode, lo, hi int, isRoot bool) {
	if got.hasToks {
		vAssert(len(got.toks) == want.b-want.a, "C11: Tokens is not the run of tokens the node consumed")
		for i, x := range got.toks {
			vAssert(x == want.a+i, "C11: Tokens is not a contiguous run starting where the node started")
		}
		if len(got.toks) > 0 {
			vAssert(got.toks[0] >= lo && got.toks[len(got.toks)-1] < hi, "C11: node token run is not inside its parent's")
		}
		if isRoot {
			vAssert(want.a+len(got.toks) == hi, "C11: root token run does not end at the last consumed token")
		}
	}
	consumed := false
	for i := want.a; i < want.b; i++ {
		if !rc.elided(i) {
			consumed = true
		}
	}
	if consumed {
		vReach("node-consumed")
		if got.hasPos {
			vAssert(got.pos == rc.T[rc.nx(want.a)].Pos, "C11: Pos is not the position of the node's first non-elided token")
		}
		if got.hasEnd {
			vAssert(got.end == rc.T[want.b].Pos, "C11: EndPos is not the position of the token after the node's last consumed token")
		}
		if got.hasPos && got.hasEnd {
			vAssert(got.pos.Offset <= got.end.Offset, "C11: Pos after EndPos")
		}
	}
	prevEnd := want.a
	for i := range want.fields {
		w, g := want.fields[i], got.fields[i]
		if len(w.subs) != len(g.subs) {
			continue // reported by C01
		}
		for j := range w.subs {
			vAssert(w.subs[j].a >= prevEnd, "C11: sibling token runs overlap or are out of order")
			vhCheckPositions(rc, w.subs[j], g.subs[j], want.a, want.b, false)
			prevEnd = w.subs[j].b
		}
	}
}
