package participle

// C08 — left-recursive grammars are rejected at build time.
//
// Build-time half: node graphs over a template of mutually referring
// productions are constructed directly (exactly as parseSequence /
// parseDisjunction shape them) and the real validate / visit /
// isLeftRecursive are compared with a reference analysis (nullable +
// leftmost-call graph + cycle search).

import (
	"reflect"

	"github.com/alecthomas/participle/v2/lexer"
)

const vhNumProds = 2
const vhMaxTerms = 2   // terms in the first alternative of the root production
const vhAlt2Terms = 1  // @tier quick=1 thorough=1
const vhRootKinds = 10 // @tier quick=10 thorough=15
const vhOtherTerms = 2 // terms of the second production

type vgP0 struct {
	X    string        `@A`
	Subs []interface{} `@@`
}
type vgP1 struct {
	X    string        `@A`
	Subs []interface{} `@@`
}
type vgP2 struct {
	X    string        `@A`
	Subs []interface{} `@@`
}

var vhProdTypes = []reflect.Type{reflect.TypeOf(vgP0{}), reflect.TypeOf(vgP1{}), reflect.TypeOf(vgP2{})}

// reference shape of a term
type vsTerm struct {
	kind  int // see vhTermKinds
	prod  int // referenced production for the @@ kinds
	other int
}

const (
	tLit         = iota
	tLitOpt      // "x"?
	tLookPos     // (?= "x")
	tNegation    // ~"x"
	tSelf        // @@ self
	tOther       // @@ other production
	tOptSelf     // ( @@self )?
	tLookSelf    // (?= @@self )
	tNonEmptyOpt // ( "x"? )!
	tNonEmptyCap // ( @( "x"? ) )!  - a capture of nothing still yields a value
	// thorough only
	tLitStar
	tLitPlus
	tLookNeg
	tGroupSelf // ( @@self )
	tNegOther  // ~ (@@other): negation evaluates its operand at the same position
	// template of VH_C08_ValidateNonEmpty only
	tNonEmptySelf  // ( @@self )!
	tNonEmptyOther // ( @@other )!
	tNonEmptySeq   // ( @@self "x" )!
	tEOF           // EOF: matches at the end of the input without consuming anything
	tEmptyLit      // "": matches the EOF token (whose text is empty) without consuming anything
	vhNumTermKind
)

// menu of the second production
var vhOtherMenu = []int{tLit, tLitOpt, tSelf, tOther}

type vsProd struct {
	alts [][]vsTerm
}

func vhLit() node { return &literal{s: "x", t: lexer.TokenType(-1)} }

// vhCapture captures n into the Subs field of production owner.
func vhCapture(owner int, n node) node {
	f, _ := vhProdTypes[owner].FieldByName("Subs")
	return &capture{field: structLexerField{StructField: f, Index: f.Index}, node: n}
}

// vhBuildTerm turns a reference term into real nodes.
func vhBuildTerm(t vsTerm, self int, strcts []*strct) node {
	switch t.kind {
	case tLit:
		return vhLit()
	case tLitOpt:
		return &group{expr: vhLit(), mode: groupMatchZeroOrOne}
	case tLitStar:
		return &group{expr: vhLit(), mode: groupMatchZeroOrMore}
	case tLitPlus:
		return &group{expr: vhLit(), mode: groupMatchOneOrMore}
	case tLookPos:
		return &lookaheadGroup{expr: vhLit()}
	case tLookNeg:
		return &lookaheadGroup{expr: vhLit(), negative: true}
	case tNegation:
		return &negation{node: vhLit()}
	case tSelf:
		return vhCapture(self, strcts[self])
	case tOther:
		return vhCapture(self, strcts[t.other])
	case tGroupSelf:
		return &group{expr: vhCapture(self, strcts[self])}
	case tOptSelf:
		return &group{expr: vhCapture(self, strcts[self]), mode: groupMatchZeroOrOne}
	case tLookSelf:
		return &lookaheadGroup{expr: vhCapture(self, strcts[self])}
	case tNonEmptyOpt:
		return &group{expr: &group{expr: vhLit(), mode: groupMatchZeroOrOne}, mode: groupMatchNonEmpty}
	case tNonEmptyCap:
		f, _ := vhProdTypes[self].FieldByName("X")
		inner := &capture{field: structLexerField{StructField: f, Index: f.Index}, node: &group{expr: vhLit(), mode: groupMatchZeroOrOne}}
		return &group{expr: inner, mode: groupMatchNonEmpty}
	case tNegOther:
		return &negation{node: vhCapture(self, strcts[t.other])}
	case tNonEmptySelf:
		return &group{expr: vhCapture(self, strcts[self]), mode: groupMatchNonEmpty}
	case tNonEmptyOther:
		return &group{expr: vhCapture(self, strcts[t.other]), mode: groupMatchNonEmpty}
	case tNonEmptySeq:
		seq := &sequence{head: true, node: vhCapture(self, strcts[self]), next: &sequence{node: vhLit()}}
		return &group{expr: seq, mode: groupMatchNonEmpty}
	case tEOF:
		return &reference{typ: lexer.EOF, identifier: "EOF"}
	case tEmptyLit:
		return &literal{s: "", t: lexer.TokenType(-1)}
	}
	panic("unknown term kind")
}

// vhBuildSeq mirrors parseSequence: head flag on the first element, a
// single-term sequence collapses to the term.
func vhBuildSeq(terms []vsTerm, self int, strcts []*strct) node {
	head := &sequence{}
	cursor := head
	for _, t := range terms {
		n := vhBuildTerm(t, self, strcts)
		if cursor.node == nil {
			cursor.head = true
			cursor.node = n
		} else {
			cursor.next = &sequence{node: n}
			cursor = cursor.next
		}
	}
	if head.next == nil {
		return head.node
	}
	return head
}

// vhBuildGraph builds the real node graph of the template.
func vhBuildGraph(prods []vsProd) []*strct {
	strcts := make([]*strct, len(prods))
	for i := range prods {
		strcts[i] = &strct{typ: vhProdTypes[i], usages: 1}
	}
	for i, p := range prods {
		var alts []node
		for _, a := range p.alts {
			alts = append(alts, vhBuildSeq(a, i, strcts))
		}
		if len(alts) == 1 {
			strcts[i].expr = alts[0]
		} else {
			strcts[i].expr = &disjunction{nodes: alts}
		}
	}
	return strcts
}

// ---------- reference analysis ----------

func vsTermNullable(t vsTerm, prods []vsProd, self int, depth int) bool {
	switch t.kind {
	case tLit, tLitPlus, tNegation, tNegOther, tNonEmptyCap, tNonEmptySelf, tNonEmptyOther, tNonEmptySeq:
		return false
	case tEOF, tEmptyLit:
		return true
	case tLitOpt, tLitStar, tLookPos, tLookNeg, tOptSelf, tLookSelf, tNonEmptyOpt:
		// ( "x"? )! either fails or matches non-empty... it can also match
		// empty input?  No: it demands a non-empty match, so it consumes;
		// handled below.
		return t.kind != tNonEmptyOpt
	case tSelf, tGroupSelf:
		return vsProdNullable(prods, self, depth+1)
	case tOther:
		return vsProdNullable(prods, t.other, depth+1)
	}
	return false
}

func vsProdNullable(prods []vsProd, p int, depth int) bool {
	if depth > 4 {
		return false
	}
	for _, a := range prods[p].alts {
		all := true
		for _, t := range a {
			if !vsTermNullable(t, prods, p, depth) {
				all = false
				break
			}
		}
		if all {
			return true
		}
	}
	return false
}

// vsLeftCalls lists the productions production p may enter before consuming
// a token.
func vsLeftCalls(prods []vsProd, p int) []int {
	var out []int
	for _, a := range prods[p].alts {
		for _, t := range a {
			switch t.kind {
			case tSelf, tGroupSelf, tOptSelf, tLookSelf, tNonEmptySelf, tNonEmptySeq:
				out = append(out, p)
			case tOther, tNegOther, tNonEmptyOther:
				out = append(out, t.other)
			}
			if !vsTermNullable(t, prods, p, 0) {
				break
			}
		}
	}
	return out
}

// vsLeftRecursive: some production reachable from the root can re-enter
// itself before consuming a token.
func vsLeftRecursive(prods []vsProd) bool {
	n := len(prods)
	// reachable productions from root 0 (through any reference)
	reach := make([]bool, n)
	reach[0] = true
	for iter := 0; iter < n; iter++ {
		for p := 0; p < n; p++ {
			if !reach[p] {
				continue
			}
			for _, a := range prods[p].alts {
				for _, t := range a {
					switch t.kind {
					case tOther, tNegOther, tNonEmptyOther:
						reach[t.other] = true
					}
				}
			}
		}
	}
	for p := 0; p < n; p++ {
		if !reach[p] {
			continue
		}
		// can p reach p through left calls?
		seen := make([]bool, n)
		work := vsLeftCalls(prods, p)
		for len(work) > 0 {
			q := work[len(work)-1]
			work = work[:len(work)-1]
			if q == p {
				return true
			}
			if seen[q] {
				continue
			}
			seen[q] = true
			work = append(work, vsLeftCalls(prods, q)...)
		}
	}
	return false
}

// vhChooseTemplate picks an arbitrary template instance: the root
// production has one or two alternatives, the second production one.
func vhChooseTemplate() []vsProd {
	prods := make([]vsProd, vhNumProds)
	nalts := 1 + vChoose("nalts", 2)
	for a := 0; a < nalts; a++ {
		max := vhMaxTerms
		if a > 0 {
			max = vhAlt2Terms
		}
		nterms := 1 + vChoose("nterms", max)
		var terms []vsTerm
		for k := 0; k < nterms; k++ {
			t := vsTerm{kind: vChoose("term", vhRootKinds)}
			if t.kind == tOther || t.kind == tNegOther {
				t.other = 1
			}
			terms = append(terms, t)
		}
		prods[0].alts = append(prods[0].alts, terms)
	}
	nterms := 1 + vChoose("nterms1", vhOtherTerms)
	var terms []vsTerm
	for k := 0; k < nterms; k++ {
		t := vsTerm{kind: vhOtherMenu[vChoose("term1", len(vhOtherMenu))]}
		if t.kind == tOther {
			t.other = 0
		}
		terms = append(terms, t)
	}
	prods[1].alts = append(prods[1].alts, terms)
	return prods
}

// vhChooseWide: one long alternative in the root (up to 4 terms from a small
// menu in which the other production may occur several times) — reaches
// prefixes made of repeated nullable sub-productions.
func vhChooseWide() []vsProd {
	prods := make([]vsProd, vhNumProds)
	menu := []int{tLit, tLitOpt, tSelf, tOther, tLookPos}
	nterms := 1 + vChoose("nterms", 4)
	var terms []vsTerm
	for k := 0; k < nterms; k++ {
		t := vsTerm{kind: menu[vChoose("term", len(menu))]}
		if t.kind == tOther {
			t.other = 1
		}
		terms = append(terms, t)
	}
	prods[0].alts = append(prods[0].alts, terms)
	if vBool("second-alternative") {
		prods[0].alts = append(prods[0].alts, []vsTerm{{kind: tLit}})
	}
	n1 := 1 + vChoose("nterms1", 2)
	var t1 []vsTerm
	for k := 0; k < n1; k++ {
		t := vsTerm{kind: vhOtherMenu[vChoose("term1", len(vhOtherMenu))]}
		if t.kind == tOther {
			t.other = 0
		}
		t1 = append(t1, t)
	}
	prods[1].alts = append(prods[1].alts, t1)
	return prods
}

// vhChooseThree: an entry production in front of two further productions
// that may refer to each other, to themselves and back to the entry: cycles
// that do not pass through the production validate starts from.
func vhChooseThree() []vsProd {
	prods := make([]vsProd, 3)
	pick := func(tag string, menu []vsTerm, max int) []vsTerm {
		n := 1 + vChoose(tag+"n", max)
		var terms []vsTerm
		for k := 0; k < n; k++ {
			terms = append(terms, menu[vChoose(tag, len(menu))])
		}
		return terms
	}
	lit, opt := vsTerm{kind: tLit}, vsTerm{kind: tLitOpt}
	to := func(p int) vsTerm { return vsTerm{kind: tOther, other: p} }
	// entry: @@P1 followed by nothing or an optional literal
	entry := []vsTerm{to(1)}
	if vBool("entrytail") {
		entry = append(entry, opt)
	}
	prods[0].alts = [][]vsTerm{entry}
	prods[1].alts = [][]vsTerm{
		pick("p1a", []vsTerm{lit, opt, to(2), to(0)}, 2),
		pick("p1b", []vsTerm{lit, to(2)}, 1),
	}
	prods[2].alts = [][]vsTerm{pick("p2", []vsTerm{lit, opt, to(1), to(0), {kind: tSelf}}, 2)}
	return prods
}

// vhChooseNonEmpty: references inside ( ... )! groups, next to alternatives
// that start with a token, and the two terms that match at the end of the
// input without consuming (EOF, "").
func vhChooseNonEmpty() []vsProd {
	prods := make([]vsProd, vhNumProds)
	menu0 := []vsTerm{{kind: tLit}, {kind: tLitOpt}, {kind: tNonEmptySelf}, {kind: tNonEmptyOther, other: 1}, {kind: tNonEmptySeq}, {kind: tEOF}, {kind: tEmptyLit}, {kind: tSelf}, {kind: tOther, other: 1}}
	menu1 := []vsTerm{{kind: tLit}, {kind: tNonEmptyOther, other: 0}, {kind: tNonEmptySelf}, {kind: tEOF}, {kind: tOther, other: 0}}
	n := 1 + vChoose("nterms", 2)
	var terms []vsTerm
	for k := 0; k < n; k++ {
		terms = append(terms, menu0[vChoose("term", len(menu0))])
	}
	prods[0].alts = append(prods[0].alts, terms)
	if vBool("second-alternative") {
		prods[0].alts = append(prods[0].alts, []vsTerm{{kind: tLit}})
	}
	n1 := 1 + vChoose("nterms1", 2)
	var t1 []vsTerm
	for k := 0; k < n1; k++ {
		t1 = append(t1, menu1[vChoose("term1", len(menu1))])
	}
	prods[1].alts = append(prods[1].alts, t1)
	if vBool("second-alternative1") {
		prods[1].alts = append(prods[1].alts, []vsTerm{{kind: tLit}})
	}
	return prods
}

func VH_C08_ValidateNonEmpty() {
	prods := vhChooseNonEmpty()
	strcts := vhBuildGraph(prods)
	err := validate(strcts[0])
	if vsLeftRecursive(prods) {
		vReach("left-recursive")
		vAssert(err != nil, "C08: left-recursive grammar accepted by validate")
	} else {
		vReach("not-left-recursive")
		vAssert(err == nil, "C08: grammar without left recursion rejected by validate")
	}
}

func VH_C08_ValidateThree() {
	prods := vhChooseThree()
	strcts := vhBuildGraph(prods)
	err := validate(strcts[0])
	if vsLeftRecursive(prods) {
		vReach("left-recursive")
		vAssert(err != nil, "C08: left-recursive grammar accepted by validate")
	} else {
		vReach("not-left-recursive")
		vAssert(err == nil, "C08: grammar without left recursion rejected by validate")
	}
}

func VH_C08_ValidateWide() {
	prods := vhChooseWide()
	strcts := vhBuildGraph(prods)
	err := validate(strcts[0])
	if vsLeftRecursive(prods) {
		vReach("left-recursive")
		vAssert(err != nil, "C08: left-recursive grammar accepted by validate")
	} else {
		vReach("not-left-recursive")
		vAssert(err == nil, "C08: grammar without left recursion rejected by validate")
	}
}

func VH_C08_Validate() {
	prods := vhChooseTemplate()
	strcts := vhBuildGraph(prods)
	err := validate(strcts[0])
	want := vsLeftRecursive(prods)
	if want {
		vReach("left-recursive")
		vAssert(err != nil, "C08: left-recursive grammar accepted by validate")
	} else {
		vReach("not-left-recursive")
		vAssert(err == nil, "C08: grammar without left recursion rejected by validate")
	}
}

// ---------- parse-time half ----------

type vhActivation struct {
	s   *strct
	cur lexer.RawCursor
}

var vhParseStack []vhActivation

// vhStrctParseMonitor wraps (*strct).Parse: no production may be entered
// again at the same raw cursor while an activation of it is on the stack.
func vhStrctParseMonitor(s *strct, ctx *parseContext, parent reflect.Value) ([]reflect.Value, error) {
	cur := ctx.RawCursor()
	for _, a := range vhParseStack {
		vAssert(!(a.s == s && a.cur == cur), "C08: a production was re-entered without consuming input (unbounded recursion)")
	}
	vhParseStack = append(vhParseStack, vhActivation{s, cur})
	vAssert(len(vhParseStack) <= vhNumProds*(vhMaxStream+2), "C08: recursion depth not bounded by the input length")
	out, err := s.Parse(ctx, parent)
	vhParseStack = vhParseStack[:len(vhParseStack)-1]
	return out, err
}

const vhMaxStream = 3 // @tier quick=3 thorough=4

// VH_C08_Parse: every template grammar that validate accepts parses any
// stream without re-entering a production at the same position.
func VH_C08_Parse() {
	prods := vhChooseTemplate()
	strcts := vhBuildGraph(prods)
	if validate(strcts[0]) != nil {
		vReach("rejected")
		return
	}
	vReach("accepted-by-validate")
	n := vChoose("ntokens", vhMaxStream+1)
	toks := make([]lexer.Token, 0, n+1)
	for i := 0; i < n; i++ {
		toks = append(toks, lexer.Token{Type: vhTA, Value: vString("value", 1), Pos: lexer.Position{Offset: i, Line: 1, Column: i + 1}})
	}
	toks = append(toks, lexer.EOFToken(lexer.Position{Offset: n, Line: 1, Column: n + 1}))
	pl, _ := lexer.Upgrade(&vhStreamLexer{toks: toks})
	ctx := newParseContext(pl, vInt("lookahead"), nil)
	vhParseStack = nil
	vWrap("(*github.com/alecthomas/participle/v2.strct).Parse", vhStrctParseMonitor)
	rv := reflect.New(vhProdTypes[0]).Elem()
	func() {
		defer func() {
			if r := recover(); r != nil {
				// the library's own deliberate panic for a grammar bug (an
				// accepted alternative that did not progress) carries a
				// participle.Error; anything else is re-raised
				if _, ok := r.(Error); !ok {
					panic(r)
				}
				vReach("grammar-bug")
			}
		}()
		strcts[0].Parse(&ctx, rv)
	}()
	vReach("parsed")
}

func VH_C08_Canary() {
	prods := vhChooseTemplate()
	strcts := vhBuildGraph(prods)
	vAssert(validate(strcts[0]) == nil, "canary: must fail")
}
