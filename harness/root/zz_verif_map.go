package participle

// C18 — Unquote inverts Go quoting (differential: repo unquote vs
// strconv.Unquote, both executed from SSA on symbolic literal bytes).

import (
	"io"
	"strconv"
	"strings"

	"github.com/alecthomas/participle/v2/lexer"
)

const vhMaxLit = 4 // @tier quick=4 thorough=5

// vhUnquoteAgree: whenever the standard library accepts q as a Go string
// literal, unquote(q) must return the same value.
func vhUnquoteAgree(q string) {
	want, err := strconv.Unquote(q)
	if err != nil {
		vReach("stdlib-rejects")
		return
	}
	vReach("stdlib-accepts")
	got, gerr := unquote(q)
	vAssert(gerr == nil, "C18: unquote fails on a valid Go string literal")
	vAssert(got == want, "C18: unquote differs from strconv.Unquote on a valid literal")
}

// Every byte string of bounded length.
func VH_C18_UnquoteFree() {
	n := 2 + vChoose("len", vhMaxLit-1)
	vhUnquoteAgree(vString("q", n))
}

func vhHexDigit(tag string) byte {
	c := vByte(tag)
	vAssume(vOr(vOr(vInRange(c, '0', '9'), vInRange(c, 'a', 'f')), vInRange(c, 'A', 'F')))
	return c
}

func vhOctDigit(tag string) byte {
	c := vByte(tag)
	vAssume(vInRange(c, '0', '7'))
	return c
}

// vhItem is one element of a structured literal body; kinds limits the item
// kinds (the wide kinds are the costly ones).
func vhItem(quote byte, kinds int) string {
	switch vChoose("item", kinds) {
	case 0: // one plain byte
		c := vByte("plain")
		vAssume(vAnd(c != '\\', c != quote))
		return string([]byte{c})
	case 1: // backslash + letter
		return string([]byte{'\\', vByte("esc")})
	case 2: // \xHH
		return string([]byte{'\\', 'x', vhHexDigit("h1"), vhHexDigit("h2")})
	case 3: // \OOO
		return string([]byte{'\\', vhOctDigit("o1"), vhOctDigit("o2"), vhOctDigit("o3")})
	default: // \uHHHH
		return string([]byte{'\\', 'u', vhHexDigit("u1"), vhHexDigit("u2"), vhHexDigit("u3"), vhHexDigit("u4")})
	}
}

const vhMaxItems = 2 // @tier quick=2 thorough=3

// item kinds allowed after the first item (3 = plain, escape letter, \xHH)
const vhLaterKinds = 3 // @tier quick=3 thorough=4

// Structured literals: quote · items · quote, in the three quoting styles.
func VH_C18_UnquoteStructured() {
	quotes := []byte{'"', '`', '\''}
	quote := quotes[vChoose("quote", 3)]
	body := ""
	k := vChoose("items", vhMaxItems+1)
	for i := 0; i < k; i++ {
		kinds := 5
		if i > 0 {
			kinds = vhLaterKinds
		}
		body += vhItem(quote, kinds)
	}
	q := string([]byte{quote}) + body + string([]byte{quote})
	if quote == '\'' {
		// single-quoted strings are participle's extension: the expected
		// value is that of the same body between double quotes, provided the
		// body has no unescaped double quote
		for i := 0; i < len(body); i++ {
			vAssume(body[i] != '"')
		}
		vReach("single-quoted-body")
		want, err := strconv.Unquote("\"" + body + "\"")
		if err != nil {
			vReach("stdlib-rejects")
			return
		}
		got, gerr := unquote(q)
		vAssert(gerr == nil, "C18: unquote fails on a valid single-quoted literal")
		vAssert(got == want, "C18: unquote of a single-quoted literal differs from its double-quoted reading")
		vReach("single-quoted")
		return
	}
	vhUnquoteAgree(q)
}

// An invalid escape letter inside double quotes must be reported, as a
// located error, by the Unquote mapper.
func VH_C18_InvalidEscape() {
	c := vByte("esc")
	q := string([]byte{'"', '\\', c, '"'})
	_, serr := strconv.Unquote(q)
	_, gerr := unquote(q)
	if serr != nil {
		vAssert(gerr != nil, "C18: invalid escape sequence accepted")
		vReach("invalid")
	} else {
		vAssert(gerr == nil, "C18: valid escape rejected")
		vReach("valid")
	}
}

func VH_C18_Canary() {
	q := vString("q", 3)
	got, err := unquote(q)
	vAssert(err != nil || got != "a", "canary: must fail")
}

// ---------- mapper selection ----------

type vgMapped struct {
	All []string `@( A | B | C | Str )*`
}

var vhMapSymbols = map[string]lexer.TokenType{"EOF": lexer.EOF, "A": vhTA, "B": vhTB, "C": vhTC, "Str": -7}

type vhMapDef struct{ toks []lexer.Token }

func (d *vhMapDef) Symbols() map[string]lexer.TokenType { return vhMapSymbols }
func (d *vhMapDef) Lex(filename string, r io.Reader) (lexer.Lexer, error) {
	return &vhStreamLexer{toks: d.toks}, nil
}

type vhSeen struct {
	typ lexer.TokenType
	off int
}

// vhMapStream: up to 3 tokens whose type is one of A, B, C, Str or anything
// else, with one-byte text (a valid quoted text for Str tokens).
func vhMapStream() []lexer.Token {
	n := vChoose("ntokens", 4)
	toks := make([]lexer.Token, 0, n+1)
	for i := 0; i < n; i++ {
		ty := lexer.TokenType(vInt("type"))
		vAssume(ty != lexer.EOF)
		val := vString("value", 1)
		vAssume(val[0] < 0x80) // Upper's case mapping is checked on ASCII only
		if ty == -7 {
			c := val[0]
			vAssume(vAnd(vAnd(c != '"', c != '\\'), vAnd(c != '\n', c < 0x80)))
			val = "\"" + val + "\""
		}
		toks = append(toks, lexer.Token{Type: ty, Value: val, Pos: lexer.Position{Filename: "f", Offset: i, Line: 1, Column: i + 1}})
	}
	toks = append(toks, lexer.EOFToken(lexer.Position{Filename: "f", Offset: n, Line: 1, Column: n + 1}))
	return toks
}

// VH_C18_Select: a custom Map function sees each non-EOF token of its selected
// types exactly once, in stream order; Upper and Unquote change only the
// selected types and never the position or type.
func VH_C18_Select() {
	toks := vhMapStream()
	var seenA, seenAll []vhSeen
	recA := func(t lexer.Token) (lexer.Token, error) {
		seenA = append(seenA, vhSeen{t.Type, t.Pos.Offset})
		return t, nil
	}
	recAll := func(t lexer.Token) (lexer.Token, error) {
		if !t.EOF() {
			seenAll = append(seenAll, vhSeen{t.Type, t.Pos.Offset})
		}
		return t, nil
	}
	cfg := vChoose("config", 4)
	opts := []Option{Lexer(&vhMapDef{toks: toks})}
	switch cfg {
	case 0:
		opts = append(opts, Map(recA, "A", "B"))
	case 1:
		opts = append(opts, Map(recAll), Map(recA, "A", "B"))
	case 2:
		opts = append(opts, Upper("A"), Map(recA, "A", "B"))
	case 3:
		opts = append(opts, Unquote("Str"), Map(recAll))
	}
	p, err := Build[vgMapped](opts...)
	vAssert(err == nil, "catalogue grammar must build")
	got, lerr := p.Lex("f", strings.NewReader(""))
	vAssert(lerr == nil, "C18: lexing through the mappers failed")
	vAssert(len(got) == len(toks), "C18: mappers changed the number of tokens")
	// expected recorder contents
	var wantA, wantAll []vhSeen
	for _, t := range toks {
		if t.EOF() {
			continue
		}
		wantAll = append(wantAll, vhSeen{t.Type, t.Pos.Offset})
		if t.Type == vhTA || t.Type == vhTB {
			wantA = append(wantA, vhSeen{t.Type, t.Pos.Offset})
		}
	}
	if cfg != 3 {
		vAssert(len(seenA) == len(wantA), "C18: Map(f, types...) did not see each selected token exactly once")
		for i := range wantA {
			vAssert(seenA[i] == wantA[i], "C18: Map(f, types...) saw tokens out of order or of another type")
		}
	}
	if cfg == 1 || cfg == 3 {
		vAssert(len(seenAll) == len(wantAll), "C18: Map(f) without types did not see every non-EOF token exactly once")
		for i := range wantAll {
			vAssert(seenAll[i] == wantAll[i], "C18: Map(f) saw tokens out of order")
		}
	}
	for i, t := range toks {
		g := got[i]
		vAssert(g.Pos == t.Pos && g.Type == t.Type, "C18: a mapper changed a token's position or type")
		switch {
		case cfg == 2 && t.Type == vhTA:
			b := t.Value[0]
			up := b
			if b >= 'a' && b <= 'z' {
				up = b - 32
			}
			if b < 0x80 {
				vAssert(len(g.Value) == 1 && g.Value[0] == up, "C18: Upper did not upper-case a selected token")
			}
		case cfg == 3 && t.Type == -7:
			vAssert(g.Value == t.Value[1:len(t.Value)-1], "C18: Unquote did not unquote a selected token")
		default:
			vAssert(g.Value == t.Value, "C18: a token of a type that was not selected was changed")
		}
	}
	vReach("mapped")
}

// VH_C18_Chain: three recording mappers, each with its own selection of
// token types (or none = every token), registered in one Build.  Every
// recorder sees each non-EOF token of its own selection exactly once, in
// stream order, whatever the other mappers select.
var vhChainSelections = [][]string{nil, {"A"}, {"B"}, {"A", "B"}, {"C"}, {"A", "A"}, {"EOF"}, {"B", "EOF", "B"}}

const vhChainTokens = 2 // @tier quick=2 thorough=3

func VH_C18_Chain() {
	n := vChoose("ntokens", vhChainTokens+1)
	toks := make([]lexer.Token, 0, n+1)
	for i := 0; i < n; i++ {
		ty := lexer.TokenType(vInt("type"))
		vAssume(ty != lexer.EOF)
		toks = append(toks, lexer.Token{Type: ty, Value: "v", Pos: lexer.Position{Filename: "f", Offset: i, Line: 1, Column: i + 1}})
	}
	toks = append(toks, lexer.EOFToken(lexer.Position{Filename: "f", Offset: n, Line: 1, Column: n + 1}))
	const k = 3
	var seen [k][]vhSeen
	var sel [k][]string
	opts := []Option{Lexer(&vhMapDef{toks: toks})}
	for m := 0; m < k; m++ {
		m := m
		sel[m] = vhChainSelections[vChoose("selection", len(vhChainSelections))]
		opts = append(opts, Map(func(t lexer.Token) (lexer.Token, error) {
			if !t.EOF() {
				seen[m] = append(seen[m], vhSeen{t.Type, t.Pos.Offset})
			}
			return t, nil
		}, sel[m]...))
	}
	p, err := Build[vgMapped](opts...)
	vAssert(err == nil, "catalogue grammar must build")
	got, lerr := p.Lex("f", strings.NewReader(""))
	vAssert(lerr == nil, "C18: lexing through the mappers failed")
	vAssert(len(got) == len(toks), "C18: mappers changed the number of tokens")
	for m := 0; m < k; m++ {
		var want []vhSeen
		for _, t := range toks {
			if t.EOF() {
				continue
			}
			selected := len(sel[m]) == 0
			for _, s := range sel[m] {
				if vhMapSymbols[s] == t.Type {
					selected = true
				}
			}
			if selected {
				want = append(want, vhSeen{t.Type, t.Pos.Offset})
			}
		}
		vAssert(len(seen[m]) == len(want), "C18: a Map function did not see each token of its selection exactly once")
		for i := range want {
			vAssert(seen[m][i] == want[i], "C18: a Map function saw tokens out of order or outside its selection")
		}
	}
	for i, t := range toks {
		vAssert(got[i].Pos == t.Pos && got[i].Type == t.Type && got[i].Value == t.Value, "C18: recording mappers changed a token")
	}
	vReach("chained")
}
