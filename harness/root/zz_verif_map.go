package participle

// C18 — Unquote inverts Go quoting (differential: repo unquote vs
// strconv.Unquote, both executed from SSA on symbolic literal bytes).

import (
	"strconv"

	"github.com/alecthomas/participle/v2/lexer"
)

const vhMaxLit = 4 // @tier quick=4 thorough=5

// vhUnquoteAgree: whenever the standard library accepts q as a Go string
// literal, unquote(q) must return the same value.
func vhUnquoteAgree(q string) {
	want, err := strconv.Unquote(q)
	if err != nil {
		vReach("stdlib-rejects")
		return
	}
	vReach("stdlib-accepts")
	got, gerr := unquote(q)
	vAssert(gerr == nil, "C18: unquote fails on a valid Go string literal")
	vAssert(got == want, "C18: unquote differs from strconv.Unquote on a valid literal")
}

// Every byte string of bounded length.
func VH_C18_UnquoteFree() {
	n := 2 + vChoose("len", vhMaxLit-1)
	vhUnquoteAgree(vString("q", n))
}

func vhHexDigit(tag string) byte {
	c := vByte(tag)
	vAssume(vOr(vOr(vInRange(c, '0', '9'), vInRange(c, 'a', 'f')), vInRange(c, 'A', 'F')))
	return c
}

func vhOctDigit(tag string) byte {
	c := vByte(tag)
	vAssume(vInRange(c, '0', '7'))
	return c
}

// vhItem is one element of a structured literal body; kinds limits the item
// kinds (the wide kinds are the costly ones).
func vhItem(quote byte, kinds int) string {
	switch vChoose("item", kinds) {
	case 0: // one plain byte
		c := vByte("plain")
		vAssume(vAnd(c != '\\', c != quote))
		return string([]byte{c})
	case 1: // backslash + letter
		return string([]byte{'\\', vByte("esc")})
	case 2: // \xHH
		return string([]byte{'\\', 'x', vhHexDigit("h1"), vhHexDigit("h2")})
	case 3: // \OOO
		return string([]byte{'\\', vhOctDigit("o1"), vhOctDigit("o2"), vhOctDigit("o3")})
	default: // \uHHHH
		return string([]byte{'\\', 'u', vhHexDigit("u1"), vhHexDigit("u2"), vhHexDigit("u3"), vhHexDigit("u4")})
	}
}

const vhMaxItems = 2 // @tier quick=2 thorough=3

// item kinds allowed after the first item (3 = plain, escape letter, \xHH)
const vhLaterKinds = 3 // @tier quick=3 thorough=4

// Structured literals: quote · items · quote, in the three quoting styles.
func VH_C18_UnquoteStructured() {
	quotes := []byte{'"', '`', '\''}
	quote := quotes[vChoose("quote", 3)]
	body := ""
	k := vChoose("items", vhMaxItems+1)
	for i := 0; i < k; i++ {
		kinds := 5
		if i > 0 {
			kinds = vhLaterKinds
		}
		body += vhItem(quote, kinds)
	}
	q := string([]byte{quote}) + body + string([]byte{quote})
	if quote == '\'' {
		// single-quoted strings are participle's extension: the expected
		// value is that of the same body between double quotes, provided the
		// body has no unescaped double quote
		for i := 0; i < len(body); i++ {
			vAssume(body[i] != '"')
		}
		vReach("single-quoted-body")
		want, err := strconv.Unquote("\"" + body + "\"")
		if err != nil {
			vReach("stdlib-rejects")
			return
		}
		got, gerr := unquote(q)
		vAssert(gerr == nil, "C18: unquote fails on a valid single-quoted literal")
		vAssert(got == want, "C18: unquote of a single-quoted literal differs from its double-quoted reading")
		vReach("single-quoted")
		return
	}
	vhUnquoteAgree(q)
}

// An invalid escape letter inside double quotes must be reported, as a
// located error, by the Unquote mapper.
func VH_C18_InvalidEscape() {
	c := vByte("esc")
	q := string([]byte{'"', '\\', c, '"'})
	_, serr := strconv.Unquote(q)
	_, gerr := unquote(q)
	if serr != nil {
		vAssert(gerr != nil, "C18: invalid escape sequence accepted")
		vReach("invalid")
	} else {
		vAssert(gerr == nil, "C18: valid escape rejected")
		vReach("valid")
	}
}

func VH_C18_Canary() {
	q := vString("q", 3)
	got, err := unquote(q)
	vAssert(err != nil || got != "a", "canary: must fail")
}

var _ = lexer.EOF
