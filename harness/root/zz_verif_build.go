package participle

// C19 — Build always returns a parser or an error; it never panics.
//
// The tag *token soup* is symbolic: (*tagLexer).Next is stubbed (vOverride)
// so that every struct field yields up to vhMaxTagTokens tokens chosen from
// the tag alphabet, then EOF.  Contract of the stub: text/scanner +
// textScannerTransform turn the rendered tag text into exactly these tokens;
// on native replay the harness renders the chosen tokens into real struct
// tags and the real scanner lexes them, so the contract is validated by
// every replay.

import (
	"reflect"
	"text/scanner"

	"github.com/alecthomas/participle/v2/lexer"
)

const vhMaxTagTokens = 3 // @tier quick=3 thorough=4

type vhTagTok struct {
	text string // how the token is written in a tag
	typ  lexer.TokenType
	val  string // token value after textScannerTransform
}

// the first vhAlphabetSize entries are used
const vhAlphabetSize = 15 // @tier quick=15 thorough=18

var vhTagAlphabetAll = []vhTagTok{
	{"@", '@', "@"}, {"!", '!', "!"}, {"~", '~', "~"}, {"?", '?', "?"}, {"*", '*', "*"}, {"+", '+', "+"},
	{"(", '(', "("}, {")", ')', ")"}, {"[", '[', "["}, {"]", ']', "]"}, {"|", '|', "|"}, {":", ':', ":"},
	{"A", scanner.Ident, "A"}, {"Zz", scanner.Ident, "Zz"}, {`"a"`, scanner.String, "a"},
	{"{", '{', "{"}, {"}", '}', "}"}, {"=", '=', "="}, {",", ',', ","},
	{"'c'", scanner.Char, "c"}, {"`r`", scanner.RawString, "r"}, {"7", scanner.Int, "7"},
}

var vhTagAlphabet = vhTagAlphabetAll[:vhAlphabetSize]

// reduced alphabet for the two-field family (indexes into vhTagAlphabetAll)
var vhSmallAlphabet = []int{0, 1, 3, 6, 7, 10, 12, 14}

// field types: the first vhNumFieldTypes entries are used
const vhNumFieldTypes = 6 // @tier quick=6 thorough=8

// vhSoupField is the token list chosen for one field's tag (keyed by the
// tag lexer's file name): the same field always lexes to the same tokens,
// however often structLexer re-lexes it while peeking.
type vhSoupField struct {
	toks []lexer.Token
	done bool
}

var (
	vhSoupFields map[string]*vhSoupField
	vhSoupPos    map[*tagLexer]int
)

// vhTagNext is the stub for (*tagLexer).Next.
func vhTagNext(t *tagLexer) (lexer.Token, error) {
	if t.filename == "vhShapeSub" {
		// the nested static production keeps its real tag `@A`
		vhSoupPos[t]++
		switch vhSoupPos[t] {
		case 1:
			return lexer.Token{Type: '@', Value: "@"}, nil
		case 2:
			return lexer.Token{Type: scanner.Ident, Value: "A"}, nil
		}
		return lexer.EOFToken(lexer.Position{}), nil
	}
	f := vhSoupFields[t.filename]
	if f == nil {
		f = &vhSoupField{}
		vhSoupFields[t.filename] = f
	}
	i := vhSoupPos[t]
	pos := lexer.Position{Filename: t.filename, Line: 1, Column: i + 1, Offset: i}
	if i < len(f.toks) {
		vhSoupPos[t] = i + 1
		return f.toks[i], nil
	}
	if f.done || len(f.toks) >= vhSoupMax {
		f.done = true
		return lexer.EOFToken(pos), nil
	}
	n := len(vhTagAlphabet)
	if vhSoupSmall {
		n = len(vhSmallAlphabet)
	}
	var c int
	if len(f.toks) == 0 {
		c = vChoose("tagtok", n) // a field always has at least one token
	} else {
		c = vChoose("tagtok", n+1)
	}
	if c == n {
		f.done = true
		return lexer.EOFToken(pos), nil
	}
	a := vhSoupTok(c)
	tok := lexer.Token{Type: a.typ, Value: a.val, Pos: pos}
	f.toks = append(f.toks, tok)
	vhSoupPos[t] = i + 1
	return tok, nil
}

func vhSoupTok(c int) vhTagTok {
	if vhSoupSmall {
		return vhTagAlphabetAll[vhSmallAlphabet[c]]
	}
	return vhTagAlphabet[c]
}

// vhNativeTags reconstructs, on native replay, the tag text of each field
// from the recorded choices.
func vhNativeTags(nfields int, names []string) []string {
	tags := make([]string, nfields)
	read := make([]bool, nfields)
	field, count := 0, 0
	fieldName := func(i int) string {
		if i == 0 {
			return ""
		}
		return names[i]
	}
	for field < nfields && vRT.pos < len(vRT.vals) && vRT.vals[vRT.pos].Kind == "choose" && vRT.vals[vRT.pos].Tag == "tagtok" {
		c := int(vRT.vals[vRT.pos].Int)
		vRT.pos++
		n := len(vhTagAlphabet)
		if vhSoupSmall {
			n = len(vhSmallAlphabet)
		}
		read[field] = true
		f := vhSoupFields[fieldName(field)]
		if f == nil {
			f = &vhSoupField{done: true}
			vhSoupFields[fieldName(field)] = f
		}
		if c == n {
			field, count = field+1, 0
			continue
		}
		a := vhSoupTok(c)
		tags[field] += " " + a.text
		f.toks = append(f.toks, lexer.Token{Type: a.typ, Value: a.val})
		count++
		if count >= vhSoupMax {
			// the stub returns EOF without asking once the bound is reached
			field, count = field+1, 0
		}
	}
	for i := range tags {
		if !read[i] {
			// a field the executor's path never lexed: any content is
			// possible there, in particular a stray token that a correct
			// Build must reject
			tags[i] = ")"
			vhSoupUnread = true
		}
	}
	return tags
}

var vhSoupUnread bool

type vhShapeSub struct {
	X string `@A`
}

var vhFieldTypes = []reflect.Type{
	reflect.TypeOf(""), reflect.TypeOf(&vhShapeSub{}), reflect.TypeOf([]string{}), reflect.TypeOf(true),
	reflect.TypeOf(map[string]string{}), reflect.TypeOf((*interface{})(nil)).Elem(),
	reflect.TypeOf(0), reflect.TypeOf([]*vhShapeSub{}), reflect.TypeOf(vhShapeSub{}),
	reflect.TypeOf(lexer.Token{}), reflect.TypeOf(struct{}{}),
}

var (
	vhSoupMax   int
	vhSoupSmall bool
)

func vhSoupRun(nfields, maxTok int, small bool) {
	vhSoupFields, vhSoupPos = map[string]*vhSoupField{}, map[*tagLexer]int{}
	vhSoupMax, vhSoupSmall = maxTok, small
	types := make([]reflect.Type, nfields)
	for i := range types {
		nt := vhNumFieldTypes
		if small {
			nt = 3
		}
		types[i] = vhFieldTypes[vChoose("fieldtype", nt)]
	}
	tags := make([]string, nfields)
	names := []string{"F0", "F1", "F2"}
	vhSoupUnread = false
	if vSymbolic() {
		vOverride("(*github.com/alecthomas/participle/v2.tagLexer).Next", vhTagNext)
		for i := range tags {
			tags[i] = "x"
		}
	} else {
		tags = vhNativeTags(nfields, names)
	}
	fields := make([]reflect.StructField, nfields)
	for i := range fields {
		fields[i] = reflect.StructField{Name: names[i], Type: types[i], Tag: reflect.StructTag(tags[i])}
	}
	rt := reflect.StructOf(fields)
	def := &vhStreamDef{}
	ctx := newGeneratorContext(def)
	node, err := ctx.parseType(rt)
	vAssert((node != nil) != (err != nil), "C19: parseType must return a node or an error, not both or neither")
	if err != nil {
		vReach("rejected")
		vObserve("rejected")
		return
	}
	vReach("built")
	// A grammar can only be accepted after every token of every field has
	// been looked at (otherwise trailing garbage in a later field would go
	// unnoticed) ...
	for i := 0; i < nfields; i++ {
		name := names[i]
		if i == 0 {
			name = ""
		}
		f := vhSoupFields[name]
		if vSymbolic() {
			vAssert(f != nil && (f.done || len(f.toks) >= vhSoupMax), "C19: Build accepted the grammar without reading every field's tag to its end")
		}
	}
	if !vSymbolic() {
		// natively an unread field holds a stray ")": a Build that did not
		// read it accepts a malformed grammar
		vAssert(!vhSoupUnread, "C19: Build accepted the grammar without reading every field's tag to its end")
	}
	// ... and only if the token sequence is a sentence of the documented tag
	// language (decided by the reference tag parser of zz_verif_ref.go).
	if !vhSoupUnread {
		var toks []vtag
		for i := 0; i < nfields; i++ {
			name := names[i]
			if i == 0 {
				name = ""
			}
			for _, t := range vhSoupFields[name].toks {
				kind := byte('p')
				switch t.Type {
				case scanner.Ident:
					kind = 'i'
				case scanner.String, scanner.RawString, scanner.Char:
					kind = 's'
				}
				toks = append(toks, vtag{kind, t.Value, i})
			}
		}
		vAssert(vhRefSyntaxOK(toks), "C19: Build accepted a tag that is not a sentence of the documented tag language")
	}
	verr := validate(node)
	vObserve("built", verr == nil)
}

// vhRefSyntaxOK runs the reference tag parser on a token sequence (syntax only).
func vhRefSyntaxOK(toks []vtag) (ok bool) {
	defer func() {
		if recover() != nil {
			ok = false
		}
	}()
	p := &vtagParser{toks: toks, syntaxOnly: true}
	p.disj()
	return p.peek().kind == 0
}

func VH_C19_Soup1() { vhSoupRun(1, vhMaxTagTokens, false) }
func VH_C19_Soup2() { vhSoupRun(2, vhMaxTagTokens-1, true) }

func VH_C19_Canary() {
	c := vChoose("fieldtype", 3)
	vAssert(c != 1, "canary: must fail")
}

// ---------- field types x capture forms ----------

type vhParseVal struct{ S string }

func (vhParseVal) Parse(lex *lexer.PeekingLexer) error { return nil }

type vhParsePtr struct{ S string }

func (*vhParsePtr) Parse(lex *lexer.PeekingLexer) error { return nil }

type vhParseIface interface {
	Parse(lex *lexer.PeekingLexer) error
}

type vhCaptureT struct{ S string }

func (c *vhCaptureT) Capture(values []string) error { return nil }

type vhTextT struct{ S string }

func (c *vhTextT) UnmarshalText(b []byte) error { return nil }

type vhRecSlice []vhRecSlice
type vhRecPtr *vhRecPtr
type vhNamedString string

// named slice / pointer types that reach a self-referential type from outside
// its cycle, mutually recursive named slices, and named wrappers of ordinary types
type vhRecList []vhRecSlice
type vhRecListPtr *vhRecSlice
type vhRecOuter []vhRecPing
type vhRecPing []*vhRecPong
type vhRecPong []vhRecPing
type vhNamedSubs []*vhShapeSub
type vhNamedSubPtr *vhShapeSub
type vhNamedStrings []vhNamedString
type vhSelfRef struct {
	Next *vhSelfRef `@@?`
	V    string     `@A`
}

var vhBuildFieldTypes = []reflect.Type{
	reflect.TypeOf(""), reflect.TypeOf(&vhShapeSub{}), reflect.TypeOf([]string{}), reflect.TypeOf(true),
	reflect.TypeOf(map[string]string{}), reflect.TypeOf((*interface{})(nil)).Elem(),
	reflect.TypeOf(0), reflect.TypeOf([]*vhShapeSub{}), reflect.TypeOf(vhShapeSub{}),
	reflect.TypeOf(lexer.Token{}), reflect.TypeOf(struct{}{}),
	reflect.TypeOf((chan int)(nil)), reflect.TypeOf((func())(nil)), reflect.TypeOf([2]string{}),
	reflect.TypeOf(vhParseVal{}), reflect.TypeOf(&vhParseVal{}), reflect.TypeOf(vhParsePtr{}), reflect.TypeOf(&vhParsePtr{}),
	reflect.TypeOf((*vhParseIface)(nil)).Elem(), reflect.TypeOf([]vhParseVal{}),
	reflect.TypeOf(vhCaptureT{}), reflect.TypeOf(&vhCaptureT{}), reflect.TypeOf([]vhCaptureT{}),
	reflect.TypeOf(vhTextT{}), reflect.TypeOf(&vhTextT{}),
	reflect.TypeOf(vhRecSlice{}), reflect.TypeOf(vhRecPtr(nil)),
	reflect.TypeOf(vhNamedString("")), reflect.TypeOf((*string)(nil)), reflect.TypeOf((**vhShapeSub)(nil)),
	reflect.TypeOf([]lexer.Token{}), reflect.TypeOf(1.5), reflect.TypeOf(uint8(0)), reflect.TypeOf([]int{}),
	reflect.TypeOf(&vhSelfRef{}), reflect.TypeOf([][]string{}), reflect.TypeOf(&[]string{}),
	reflect.TypeOf((*error)(nil)).Elem(), reflect.TypeOf(complex(1, 1)), reflect.TypeOf(uintptr(0)),
	reflect.TypeOf(vhRecList{}), reflect.TypeOf(vhRecListPtr(nil)), reflect.TypeOf(vhRecOuter{}), reflect.TypeOf(vhRecPing{}),
	reflect.TypeOf([]vhRecList{}), reflect.TypeOf(vhNamedSubs{}), reflect.TypeOf(vhNamedSubPtr(nil)), reflect.TypeOf(vhNamedStrings{}),
	reflect.TypeOf([]*int{}), reflect.TypeOf([]*string{}),
}

var vhBuildTags = []string{`@@`, `@A`, `@@*`, `@A*`, `( @@ )?`, `@( A B )`, `"x" @@`, `@"x"`, `(?= @@ ) A`, `~@@`, `[ @@ ]`, `{ @@ }`}

// VH_C19_FieldTypes: one field of every kind of type with each capture form:
// Build (parseType + validate) returns a node or an error within a step bound.
func VH_C19_FieldTypes() {
	ft := vhBuildFieldTypes[vChoose("fieldtype", len(vhBuildFieldTypes))]
	tag := vhBuildTags[vChoose("tag", len(vhBuildTags))]
	rt := reflect.StructOf([]reflect.StructField{{Name: "F0", Type: ft, Tag: reflect.StructTag(tag)}})
	def := &vhStreamDef{}
	ctx := newGeneratorContext(def)
	vStepLimit(3000000, "C19: Build did not terminate for this field type")
	node, err := ctx.parseType(rt)
	vAssert((node != nil) != (err != nil), "C19: parseType must return a node or an error, not both or neither")
	if err == nil {
		_ = validate(node)
		vReach("built")
	} else {
		vReach("rejected")
	}
	vStepLimit(0, "")
}

// ---------- fields reached through several levels of embedding ----------

type vhEmbBad3 struct {
	X string `@Nope`
	Y string `@A`
}
type vhEmbBad2 struct{ vhEmbBad3 }
type vhEmbBad1 struct{ vhEmbBad2 }
type vhEmbBad0 struct {
	vhEmbBad1
	Tail string `@C?`
}

// VH_C19_Embedded: every tagged field of a struct embedded three levels deep
// is read with its own tag: the valid grammar builds, the one whose first
// innermost field names an unknown token type is rejected.
func VH_C19_Embedded() {
	_, err := Build[vgEmb0](Lexer(&vhStreamDef{}))
	vAssert(err == nil, "C19: a grammar that follows the tag syntax (fields of a struct embedded three levels deep) does not build")
	_, err = Build[vhEmbBad0](Lexer(&vhStreamDef{}))
	vAssert(err != nil, "C19: a tag that references an unknown token type (field of a struct embedded three levels deep) is accepted")
	vReach("built")
}

// ---------- tag text at the character level ----------

// VH_C19_TagBytes: the tag of one field ends in up to vhTagBytes arbitrary
// characters from an alphabet of quotes, back-quote, backslash, brackets,
// operators, NUL, newline and a non-ASCII byte, after a valid prefix: the real
// tag lexer (text/scanner, executed from SSA) and parseType must return a node
// or an error.
const vhTagBytes = 2 // @tier quick=2 thorough=3

var vhTagAlphabetBytes = []byte{'\'', '`', '"', '\\', 'a', '(', ')', '@', ' ', '\n', 0x80, 0, '?', ':', '!', '~', '|', '*'}

var vhTagPrefixes = []string{"@A ", "", "( @A ) ", "@\"x\" "}

func VH_C19_TagBytes() {
	prefix := vhTagPrefixes[vChoose("prefix", len(vhTagPrefixes))]
	n := vChoose("len", vhTagBytes+1)
	tail := vString("tag", n)
	for i := 0; i < n; i++ {
		ok := false
		for _, c := range vhTagAlphabetBytes {
			ok = vOr(ok, tail[i] == c)
		}
		vAssume(ok)
	}
	tag := prefix + tail
	var rt reflect.Type
	if vSymbolic() {
		// a struct tag is part of the (concrete) type: under the executor the
		// symbolic text is handed to the tag lexer through fieldLexerTag
		rt = reflect.StructOf([]reflect.StructField{{Name: "F0", Type: reflect.TypeOf(""), Tag: "x"}})
		vOverride("github.com/alecthomas/participle/v2.fieldLexerTag", func(field reflect.StructField) string { return tag })
	} else {
		rt = reflect.StructOf([]reflect.StructField{{Name: "F0", Type: reflect.TypeOf(""), Tag: reflect.StructTag(tag)}})
	}
	ctx := newGeneratorContext(&vhStreamDef{})
	node, err := ctx.parseType(rt)
	vAssert((node != nil) != (err != nil), "C19: parseType must return a node or an error, not both or neither")
	if err == nil {
		_ = validate(node)
		vReach("built")
	} else {
		vReach("rejected")
	}
}
