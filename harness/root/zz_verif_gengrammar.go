package participle

// Generated grammar family: a deterministic pseudo-random generator produces
// abstract grammars (all operators of the tag language, bounded depth), prints
// them to real struct tags, builds dynamic struct types (reflect.StructOf) and
// hands them to the real Build as the single member of a union over `any`.
// The reference semantics is derived from the *tags* by the independent tag
// parser of zz_verif_ref.go.  Which grammars are generated depends only on
// (vhGenSeed, index); the token stream, lookahead and AllowTrailing are
// symbolic as in the hand-written family.

import (
	"reflect"
	"strconv"

	"github.com/alecthomas/participle/v2/lexer"
)

const vhGenSeed = 1      // @tier quick=1 thorough=1
const vhGenGrammars = 48 // @tier quick=48 thorough=400
const vhGenTokens = 4    // @tier quick=4 thorough=5

type vhRand struct{ s uint64 }

func (r *vhRand) next() uint64 {
	r.s ^= r.s << 13
	r.s ^= r.s >> 7
	r.s ^= r.s << 17
	return r.s
}

func (r *vhRand) intn(n int) int { return int(r.next() % uint64(n)) }

// generator-side grammar
type ggProd struct {
	expr   *rx
	fkinds []int
	subs   []*ggProd
	rt     reflect.Type
}

type ggGen struct {
	r      *vhRand
	nprod  int
	noToks bool // do not generate lexer.Token / []lexer.Token fields
	noNeg  bool // do not generate ~ and lookahead groups (C13's grammar class)
}

var ggTokNames = []string{"A", "B", "C", "A", "B", "Ws"} // the elided type is named now and then
var ggVals = []string{"a", "b", "x"}

func (g *ggGen) nullable(e *rx) bool {
	switch e.kind {
	case kLit, kTLit, kRef, kNeg:
		return false
	case kSeq:
		for _, k := range e.kids {
			if !g.nullable(k) {
				return false
			}
		}
		return true
	case kAlt:
		for _, k := range e.kids {
			if g.nullable(k) {
				return true
			}
		}
		return false
	case kGrp:
		if e.mode == mOpt || e.mode == mStar {
			return true
		}
		if e.mode == mNonEmpty {
			return false
		}
		return g.nullable(e.kids[0])
	case kCap:
		return g.nullable(e.kids[0])
	case kSub:
		return true // decided by the sub-production; be conservative
	case kLA:
		return true
	}
	return true
}

func (g *ggGen) term(d int, inCap bool, p *ggProd) *rx {
	for {
		c := g.r.intn(100)
		switch {
		case c < 20:
			return &rx{kind: kLit, s: ggVals[g.r.intn(len(ggVals))]}
		case c < 27:
			return &rx{kind: kTLit, s: ggVals[g.r.intn(len(ggVals))], typ: ggTokNames[g.r.intn(len(ggTokNames))]}
		case c < 45:
			return &rx{kind: kRef, typ: ggTokNames[g.r.intn(len(ggTokNames))]}
		case c < 62 && d > 0:
			return g.group(d-1, inCap, p)
		case c < 80 && !inCap:
			body := g.term(d-1, true, p)
			if body.kind == kLA {
				continue
			}
			kind := []int{fStr, fStr, fStrs, fBool, fTok, fToks}[g.r.intn(6)]
			if g.noToks && (kind == fTok || kind == fToks) {
				kind = fStrs
			}
			f := g.newField(p, kind, nil)
			return &rx{kind: kCap, field: f, kids: []*rx{body}}
		case c < 87 && !inCap && d > 0 && g.nprod < 3:
			g.nprod++
			sub := g.prod(d - 1)
			f := g.newField(p, []int{fSubP, fSubPS}[g.r.intn(2)], sub)
			return &rx{kind: kSub, field: f}
		case c < 92:
			if g.noNeg {
				continue
			}
			t := g.term(0, true, p)
			if t.kind != kLit && t.kind != kRef && t.kind != kTLit {
				continue
			}
			return &rx{kind: kNeg, kids: []*rx{t}}
		case c < 97 && d > 0 && !inCap && !g.noNeg:
			return &rx{kind: kLA, neg: g.r.intn(2) == 0, kids: []*rx{g.alt(d-1, true, p)}}
		}
	}
}

func (g *ggGen) newField(p *ggProd, kind int, sub *ggProd) int {
	// sometimes reuse the previous string / []string field (accumulation)
	n := len(p.fkinds)
	if sub == nil && n > 0 && g.r.intn(4) == 0 && (p.fkinds[n-1] == fStr || p.fkinds[n-1] == fStrs) && (kind == fStr || kind == fStrs) {
		return n - 1
	}
	p.fkinds = append(p.fkinds, kind)
	p.subs = append(p.subs, sub)
	return n
}

func (g *ggGen) group(d int, inCap bool, p *ggProd) *rx {
	modes := []int{mOnce, mOpt, mStar, mPlus, mNonEmpty}
	for i := 0; i < 30; i++ {
		m := modes[g.r.intn(len(modes))]
		mark := len(p.fkinds)
		body := g.alt(d, inCap, p)
		if (m == mStar || m == mPlus) && g.nullable(body) {
			// a repetition body that can match nothing is a grammar bug
			p.fkinds, p.subs = p.fkinds[:mark], p.subs[:mark]
			continue
		}
		return &rx{kind: kGrp, mode: m, kids: []*rx{body}}
	}
	return &rx{kind: kLit, s: "a"}
}

func (g *ggGen) seq(d int, inCap bool, p *ggProd) *rx {
	n := 1 + g.r.intn(3)
	s := &rx{kind: kSeq}
	for i := 0; i < n; i++ {
		s.kids = append(s.kids, g.term(d, inCap, p))
	}
	if len(s.kids) == 1 {
		return s.kids[0]
	}
	return s
}

func (g *ggGen) alt(d int, inCap bool, p *ggProd) *rx {
	n := 1
	if g.r.intn(3) == 0 {
		n = 2 + g.r.intn(2)
	}
	if n == 1 {
		return g.seq(d, inCap, p)
	}
	a := &rx{kind: kAlt}
	for i := 0; i < n; i++ {
		for j := 0; ; j++ {
			mark := len(p.fkinds)
			s := g.seq(d, inCap, p)
			if !g.nullable(s) {
				a.kids = append(a.kids, s)
				break
			}
			p.fkinds, p.subs = p.fkinds[:mark], p.subs[:mark]
			if j > 20 {
				a.kids = append(a.kids, &rx{kind: kLit, s: "a"})
				break
			}
		}
	}
	return a
}

func ggHasCap(e *rx) bool {
	if e.kind == kCap || e.kind == kSub {
		return true
	}
	if e.kind == kLA {
		return false
	}
	for _, k := range e.kids {
		if ggHasCap(k) {
			return true
		}
	}
	return false
}

func (g *ggGen) prod(d int) *ggProd {
	for {
		p := &ggProd{}
		saved := g.nprod
		p.expr = g.alt(d, false, p)
		if ggHasCap(p.expr) && !g.nullable(p.expr) {
			return p
		}
		g.nprod = saved
	}
}

// ---------- tag printer (independent of grammar.go and of the tag parser) ----------

type ggChunk struct {
	s     string
	field int // -1: belongs to the next explicit field
}

func (p *ggProd) chunks() []ggChunk {
	var out []ggChunk
	emit := func(s string, f int) { out = append(out, ggChunk{s, f}) }
	var pr func(e *rx, top bool)
	pr = func(e *rx, top bool) {
		switch e.kind {
		case kLit:
			emit(strconv.Quote(e.s), -1)
		case kTLit:
			emit(strconv.Quote(e.s)+":"+e.typ, -1)
		case kRef:
			emit(e.typ, -1)
		case kSeq:
			if !top {
				emit("(", -1)
			}
			for _, k := range e.kids {
				pr(k, false)
			}
			if !top {
				emit(")", -1)
			}
		case kAlt:
			if !top {
				emit("(", -1)
			}
			for i, k := range e.kids {
				if i > 0 {
					emit("|", -1)
				}
				pr(k, true)
			}
			if !top {
				emit(")", -1)
			}
		case kGrp:
			emit("(", -1)
			pr(e.kids[0], true)
			emit(")", -1)
			switch e.mode {
			case mOpt:
				emit("?", -1)
			case mStar:
				emit("*", -1)
			case mPlus:
				emit("+", -1)
			case mNonEmpty:
				emit("!", -1)
			}
		case kCap:
			emit("@", e.field)
			k := e.kids[0]
			if k.kind == kSeq || k.kind == kAlt || (k.kind == kGrp && k.mode != mOnce) {
				emit("(", e.field)
				pr(k, true)
				emit(")", e.field)
			} else {
				pr(k, false)
			}
		case kSub:
			emit("@@", e.field)
		case kNeg:
			emit("~", -1)
			pr(e.kids[0], false)
		case kLA:
			if e.neg {
				emit("(?!", -1)
			} else {
				emit("(?=", -1)
			}
			pr(e.kids[0], true)
			emit(")", -1)
		}
	}
	pr(p.expr, true)
	return out
}

// tags distributes the chunks over the fields: a chunk without a field goes
// to the field of the next chunk that has one (tags are lexed field by field,
// in order, as one token stream).
func (p *ggProd) tags() []string {
	cs := p.chunks()
	tags := make([]string, len(p.fkinds))
	cur := 0
	for i := range cs {
		f := cs[i].field
		if f < 0 {
			for j := i; j < len(cs); j++ {
				if cs[j].field >= 0 {
					f = cs[j].field
					break
				}
			}
			if f < 0 {
				f = len(tags) - 1
			}
		}
		if f < cur {
			f = cur
		}
		cur = f
		tags[f] += " " + cs[i].s
	}
	return tags
}

func (p *ggProd) rtype() reflect.Type {
	if p.rt != nil {
		return p.rt
	}
	tags := p.tags()
	fields := make([]reflect.StructField, 0, len(p.fkinds))
	for i, k := range p.fkinds {
		var t reflect.Type
		switch k {
		case fStr:
			t = reflect.TypeOf("")
		case fStrs:
			t = reflect.TypeOf([]string{})
		case fBool:
			t = reflect.TypeOf(true)
		case fTok:
			t = reflect.TypeOf(lexer.Token{})
		case fToks:
			t = reflect.TypeOf([]lexer.Token{})
		case fSubP:
			t = reflect.PtrTo(p.subs[i].rtype())
		case fSubPS:
			t = reflect.SliceOf(reflect.PtrTo(p.subs[i].rtype()))
		}
		tag := tags[i]
		if tag == "" {
			tag = " "
		}
		fields = append(fields, reflect.StructField{Name: "F" + strconv.Itoa(i), Type: t, Tag: reflect.StructTag(tag)})
	}
	// every generated node also records its position and tokens
	fields = append(fields,
		reflect.StructField{Name: "Pos", Type: reflect.TypeOf(lexer.Position{})},
		reflect.StructField{Name: "EndPos", Type: reflect.TypeOf(lexer.Position{})},
		reflect.StructField{Name: "Tokens", Type: reflect.TypeOf([]lexer.Token{})})
	p.rt = reflect.StructOf(fields)
	return p.rt
}

// vhGenerated returns the root struct type of generated grammar number idx.
func vhGenerated(idx int, noToks, noNeg bool) reflect.Type {
	r := &vhRand{s: uint64(vhGenSeed)*0x9E3779B97F4A7C15 + uint64(idx+1)*0xD1B54A32D192ED03 + 1}
	for i := 0; i < 4; i++ {
		r.next()
	}
	g := &ggGen{r: r, noToks: noToks, noNeg: noNeg}
	root := g.prod(2)
	return root.rtype()
}

var vhAnyType = reflect.TypeOf((*interface{})(nil)).Elem()

// vhGenParser returns (memoised) the type, parser and reference grammar of
// generated grammar idx; parser is nil if Build rejects the grammar.
func vhGenParser(idx int, noToks, noNeg bool) (reflect.Type, *Parser[any], *rprod) {
	key := "gen:" + strconv.Itoa(idx) + ":" + strconv.FormatBool(noToks) + ":" + strconv.FormatBool(noNeg)
	rt := vMemo(key, func() interface{} { return vhGenerated(idx, noToks, noNeg) }).(reflect.Type)
	built := vMemo(key+":parser", func() interface{} {
		member := reflect.New(rt).Elem().Interface()
		p, err := Build[any](Lexer(&vhStreamDef{}), Elide("Ws"), Union[any](member))
		if err != nil {
			return (*Parser[any])(nil)
		}
		return p
	}).(*Parser[any])
	root := vMemo(key+":grammar", func() interface{} {
		return vhGrammarOf(vhAnyType, map[reflect.Type][]reflect.Type{vhAnyType: {rt}})
	}).(*rprod)
	return rt, built, root
}

func vhGenWith(built *Parser[any], toks []lexer.Token, k int) *Parser[any] {
	pc := *built
	pc.lex = &vhStreamDef{toks: toks}
	vAssert(UseLookahead(k)(&pc.parserOptions) == nil, "UseLookahead failed")
	return &pc
}

func vhGenAST(ast *any) reflect.Value { return vhDeref(reflect.ValueOf(*ast)) }

var vhGenElide = map[lexer.TokenType]bool{vhTWs: true}

// vhGenRun runs the assertions of one property family on generated grammar idx.
func vhGenRun(idx int, mode string) {
	noToks := mode != "c01" && mode != "c11"
	_, built, root := vhGenParser(idx, noToks, mode == "c13")
	if built == nil {
		// the generator avoids grammar bugs, but a generated grammar may
		// still be rejected (e.g. detected as left recursive): not a subject here
		vReach("not-built")
		vObserve("not-built")
		return
	}
	toks := vhStreamN(vhGenTokens)
	k := vInt("lookahead")
	trailing := vBool("allowTrailing")
	p := vhGenWith(built, toks, k)
	ast, perr := p.ParseString("f", "", AllowTrailing(trailing))
	rc := &refctx{T: toks, elide: vhGenElide, k: k, sym: vhSymbols}
	accept, want, end := rc.parse(root, trailing)
	if rc.bug {
		vReach("grammar-bug")
		return
	}
	switch mode {
	case "c01", "c02", "c13":
		if !accept {
			vReach("reject")
			vAssert(perr != nil, "C01: the grammar's meaning rejects this stream but Parse succeeded")
			return
		}
		vReach("accept")
		vAssert(perr == nil, "C01: the grammar's meaning accepts this stream but Parse failed")
		vAssert(ast != nil && *ast != nil, "C06: nil AST with nil error")
		vhSameAST(rc.expect(want), vhActual(root, vhGenAST(ast)), "C01")
		if mode == "c13" {
			// more lookahead keeps the result
			k2 := vInt("lookahead2")
			vAssume(vAnd(k >= 0, vOr(k2 < 0, k2 > k)))
			ast2, perr2 := vhGenWith(built, toks, k2).ParseString("f", "", AllowTrailing(trailing))
			vAssert(perr2 == nil, "C13: parse succeeds with lookahead k but fails with more lookahead")
			vhSameAST(vhActual(root, vhGenAST(ast)), vhActual(root, vhGenAST(ast2)), "C13")
		}
	case "c06":
		vhCheckOutcome(toks, ast != nil, perr)
	case "c10":
		var filtered []lexer.Token
		lits := vhUntypedLiterals(root)
		dropped := 0
		for _, t := range toks {
			if !t.EOF() && vhGenElide[t.Type] {
				for _, l := range lits {
					vAssume(t.Value != l)
				}
				dropped++
				continue
			}
			filtered = append(filtered, t)
		}
		if vhNamesToken(root, "Ws") {
			vReach("names-elided-type") // outside C10's first clause
			return
		}
		if dropped > 0 {
			vReach("has-elided")
		}
		ast2, perr2 := vhGenWith(built, filtered, k).ParseString("f", "", AllowTrailing(trailing))
		vAssert((perr == nil) == (perr2 == nil), "C10: acceptance changes when elided tokens are removed")
		if perr == nil {
			vReach("accepted")
			vhSameAST(vhActual(root, vhGenAST(ast)), vhActual(root, vhGenAST(ast2)), "C10")
		}
	case "c11":
		if !accept || perr != nil || !trailing {
			return
		}
		if vhNamesToken(root, "Ws") {
			return // Pos/EndPos clause is stated for grammars that do not name elided types
		}
		vReach("accept")
		vhCheckPositions(rc, rc.expect(want), vhActual(root, vhGenAST(ast)), 0, end, true)
	}
}

// vhNamesToken reports whether the grammar refers to token type name.
func vhNamesToken(root *rprod, name string) bool {
	seen := map[*rprod]bool{}
	var walkP func(p *rprod) bool
	var walk func(e *rx) bool
	walk = func(e *rx) bool {
		if e == nil {
			return false
		}
		if (e.kind == kRef || e.kind == kTLit) && e.typ == name {
			return true
		}
		if e.kind == kSub && walkP(e.prod) {
			return true
		}
		for _, k := range e.kids {
			if walk(k) {
				return true
			}
		}
		return false
	}
	walkP = func(p *rprod) bool {
		if seen[p] {
			return false
		}
		seen[p] = true
		for _, m := range p.members {
			if walkP(m) {
				return true
			}
		}
		return walk(p.expr)
	}
	return walkP(root)
}

// vhStreamN is vhStream with an explicit bound.
func vhStreamN(max int) []lexer.Token {
	MaxIterations = 64
	n := vChoose("ntokens", max+1)
	toks := make([]lexer.Token, 0, n+1)
	for i := 0; i < n; i++ {
		ty := lexer.TokenType(vInt("type"))
		vAssume(ty != lexer.EOF)
		toks = append(toks, lexer.Token{Type: ty, Value: vString("value", 1), Pos: lexer.Position{Filename: "f", Offset: i, Line: 1, Column: i + 1}})
	}
	toks = append(toks, lexer.EOFToken(lexer.Position{Filename: "f", Offset: n, Line: 1, Column: n + 1}))
	return toks
}

func VH_C01_Generated() { vhGenRun(vChoose("grammar", vhGenGrammars), "c01") }
func VH_C02_Generated() { vhGenRun(vChoose("grammar", vhGenGrammars), "c02") }
func VH_C06_Generated() { vhGenRun(vChoose("grammar", vhGenGrammars), "c06") }
func VH_C10_Generated() { vhGenRun(vChoose("grammar", vhGenGrammars), "c10") }
func VH_C11_Generated() { vhGenRun(vChoose("grammar", vhGenGrammars), "c11") }
func VH_C13_Generated() { vhGenRun(vChoose("grammar", vhGenGrammars), "c13") }
