package participle

// Generated grammar family: a deterministic pseudo-random generator produces
// abstract grammars (all operators of the tag language, bounded depth), prints
// them to real struct tags, builds dynamic struct types (reflect.StructOf) and
// hands them to the real Build as the single member of a union over `any`.
// The reference semantics is derived from the *tags* by the independent tag
// parser of zz_verif_ref.go.  Which grammars are generated depends only on
// (vhGenSeed, index); the token stream, lookahead and AllowTrailing are
// symbolic as in the hand-written family.

import (
	"reflect"
	"strconv"

	"github.com/alecthomas/participle/v2/lexer"
)

const vhGenGrammars = 48 // @tier quick=48 thorough=200
const vhGenTokens = 4    // @tier quick=4 thorough=5

var vhAnyType = reflect.TypeOf((*interface{})(nil)).Elem()

// vhGenParser returns (memoised) the type, parser and reference grammar of
// generated grammar idx; parser is nil if Build rejects the grammar.
func vhGenParser(idx int, noToks, noNeg bool) (reflect.Type, *Parser[any], *rprod) {
	key := "gen:" + strconv.Itoa(idx) + ":" + strconv.FormatBool(noToks) + ":" + strconv.FormatBool(noNeg)
	rt := vMemo(key, func() interface{} { return vhGenerated(idx, noToks, noNeg) }).(reflect.Type)
	built := vMemo(key+":parser", func() interface{} {
		member := reflect.New(rt).Elem().Interface()
		p, err := Build[any](Lexer(&vhStreamDef{}), Elide("Ws"), Union[any](member))
		if err != nil {
			return (*Parser[any])(nil)
		}
		return p
	}).(*Parser[any])
	root := vMemo(key+":grammar", func() interface{} {
		return vhGrammarOf(vhAnyType, map[reflect.Type][]reflect.Type{vhAnyType: {rt}})
	}).(*rprod)
	return rt, built, root
}

func vhGenWith(built *Parser[any], toks []lexer.Token, k int) *Parser[any] {
	pc := *built
	pc.lex = &vhStreamDef{toks: toks}
	vAssert(UseLookahead(k)(&pc.parserOptions) == nil, "UseLookahead failed")
	return &pc
}

func vhGenAST(ast *any) reflect.Value { return vhDeref(reflect.ValueOf(*ast)) }

var vhGenElide = map[lexer.TokenType]bool{vhTWs: true}

// vhGenRun runs the assertions of one property family on generated grammar idx.
func vhGenRun(idx int, mode string) {
	noToks := mode != "c01" && mode != "c11"
	_, built, root := vhGenParser(idx, noToks, mode == "c13")
	if built == nil {
		// the generator avoids grammar bugs, but a generated grammar may
		// still be rejected (e.g. detected as left recursive): not a subject here
		vReach("not-built")
		vObserve("not-built")
		return
	}
	ntok := vhGenTokens
	if idx%12 == 11 {
		// the deeper grammars (ggcore: every twelfth) branch much more per token
		ntok--
	}
	toks := vhStreamN(ntok)
	k := vInt("lookahead")
	trailing := vBool("allowTrailing")
	p := vhGenWith(built, toks, k)
	ast, perr := p.ParseString("f", "", AllowTrailing(trailing))
	rc := &refctx{T: toks, elide: vhGenElide, k: k, sym: vhSymbols}
	accept, want, end := rc.parse(root, trailing)
	if rc.bug {
		vReach("grammar-bug")
		return
	}
	switch mode {
	case "c01", "c02", "c13":
		if !accept {
			vReach("reject")
			vAssert(perr != nil, "C01: the grammar's meaning rejects this stream but Parse succeeded")
			return
		}
		vReach("accept")
		vAssert(perr == nil, "C01: the grammar's meaning accepts this stream but Parse failed")
		vAssert(ast != nil && *ast != nil, "C06: nil AST with nil error")
		vhSameAST(rc.expect(want), vhActual(root, vhGenAST(ast)), "C01")
		if mode == "c13" {
			// more lookahead keeps the result
			k2 := vInt("lookahead2")
			vAssume(vAnd(k >= 0, vOr(k2 < 0, k2 > k)))
			ast2, perr2 := vhGenWith(built, toks, k2).ParseString("f", "", AllowTrailing(trailing))
			vAssert(perr2 == nil, "C13: parse succeeds with lookahead k but fails with more lookahead")
			vhSameAST(vhActual(root, vhGenAST(ast)), vhActual(root, vhGenAST(ast2)), "C13")
		}
	case "c06":
		vhCheckOutcome(toks, ast != nil, perr)
	case "c10":
		var filtered []lexer.Token
		lits := vhUntypedLiterals(root)
		dropped := 0
		for _, t := range toks {
			if !t.EOF() && vhGenElide[t.Type] {
				for _, l := range lits {
					vAssume(t.Value != l)
				}
				dropped++
				continue
			}
			filtered = append(filtered, t)
		}
		if vhNamesToken(root, "Ws") {
			vReach("names-elided-type") // outside C10's first clause
			return
		}
		if dropped > 0 {
			vReach("has-elided")
		}
		ast2, perr2 := vhGenWith(built, filtered, k).ParseString("f", "", AllowTrailing(trailing))
		vAssert((perr == nil) == (perr2 == nil), "C10: acceptance changes when elided tokens are removed")
		if perr == nil {
			vReach("accepted")
			vhSameAST(vhActual(root, vhGenAST(ast)), vhActual(root, vhGenAST(ast2)), "C10")
		}
	case "c11":
		if !accept || perr != nil || !trailing {
			return
		}
		if vhNamesToken(root, "Ws") {
			return // Pos/EndPos clause is stated for grammars that do not name elided types
		}
		vReach("accept")
		vhCheckPositions(rc, rc.expect(want), vhActual(root, vhGenAST(ast)), 0, end, true)
	}
}

// vhNamesToken reports whether the grammar refers to token type name.
func vhNamesToken(root *rprod, name string) bool {
	seen := map[*rprod]bool{}
	var walkP func(p *rprod) bool
	var walk func(e *rx) bool
	walk = func(e *rx) bool {
		if e == nil {
			return false
		}
		if (e.kind == kRef || e.kind == kTLit) && e.typ == name {
			return true
		}
		if e.kind == kSub && walkP(e.prod) {
			return true
		}
		for _, k := range e.kids {
			if walk(k) {
				return true
			}
		}
		return false
	}
	walkP = func(p *rprod) bool {
		if seen[p] {
			return false
		}
		seen[p] = true
		for _, m := range p.members {
			if walkP(m) {
				return true
			}
		}
		return walk(p.expr)
	}
	return walkP(root)
}

// vhStreamN is vhStream with an explicit bound.
func vhStreamN(max int) []lexer.Token {
	MaxIterations = 64
	n := vChoose("ntokens", max+1)
	toks := make([]lexer.Token, 0, n+1)
	for i := 0; i < n; i++ {
		ty := lexer.TokenType(vInt("type"))
		vAssume(ty != lexer.EOF)
		toks = append(toks, lexer.Token{Type: ty, Value: vString("value", 1), Pos: lexer.Position{Filename: "f", Offset: i, Line: 1, Column: i + 1}})
	}
	toks = append(toks, lexer.EOFToken(lexer.Position{Filename: "f", Offset: n, Line: 1, Column: n + 1}))
	return toks
}

func VH_C01_Generated() { vhGenRun(vChoose("grammar", vhGenGrammars), "c01") }
func VH_C02_Generated() { vhGenRun(vChoose("grammar", vhGenGrammars), "c02") }
func VH_C06_Generated() { vhGenRun(vChoose("grammar", vhGenGrammars), "c06") }
func VH_C10_Generated() { vhGenRun(vChoose("grammar", vhGenGrammars), "c10") }
func VH_C11_Generated() { vhGenRun(vChoose("grammar", vhGenGrammars), "c11") }
func VH_C13_Generated() { vhGenRun(vChoose("grammar", vhGenGrammars), "c13") }
