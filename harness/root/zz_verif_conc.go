package participle

// C09 (parser side) — a built Parser is safe for concurrent and repeated
// use.  Decided through the sufficient condition the code is designed
// around: after Build every object reachable from the Parser is frozen
// (vFreeze); any store into such an object during Parse*/Lex/String ends the
// path as a violation.  Calls therefore work on disjoint mutable memory, so
// no interleaving can race on repository-owned memory and no call can
// observe an earlier one.  History independence is also asserted directly:
// the same call repeated on the same parser returns the same result.

import (
	"reflect"
	"strings"
)

func vhC09Parse[G any](cfg vhConfig) {
	toks := vhStream()
	k := vInt("lookahead")
	trailing := vBool("allowTrailing")
	def := &vhStreamDef{toks: toks}
	p := vhBuild[G](cfg, def, k)
	vFreeze(p)
	a1, e1 := p.ParseString("f", "", AllowTrailing(trailing))
	a2, e2 := p.ParseString("f", "", AllowTrailing(trailing))
	_ = p.String()
	_, _ = p.Lex("f", strings.NewReader(""))
	a3, e3 := p.ParseString("f", "", AllowTrailing(trailing))
	vhSameError(e1, e2, "C09: repeated Parse")
	vhSameError(e1, e3, "C09: Parse after String/Lex")
	var g G
	root := vhGrammar(reflect.TypeOf(g), cfg.unions)
	if e1 == nil {
		vhSameAST(vhActual(root, reflect.ValueOf(a1).Elem()), vhActual(root, reflect.ValueOf(a2).Elem()), "C09: repeated Parse")
		vhSameAST(vhActual(root, reflect.ValueOf(a1).Elem()), vhActual(root, reflect.ValueOf(a3).Elem()), "C09: Parse after String/Lex")
		vReach("accepted")
	} else {
		vReach("rejected")
	}
}

func VH_C09_Parse_Alt()   { vhC09Parse[vgAlt](vhElideWs) }
func VH_C09_Parse_Group() { vhC09Parse[vgGroup](vhNoElide) }
func VH_C09_Parse_Sub()   { vhC09Parse[vgSub](vhNoElide) }
func VH_C09_Parse_Union() { vhC09Parse[vgUnion](vhUnionCfg) }
func VH_C09_Parse_Fold()  { vhC09Parse[vgFold](vhFoldA) }
func VH_C09_Parse_Leak()  { vhC09Parse[vgLeak](vhNoElide) }

// the trap itself must fire when shared state is written
func VH_C09_Parse_Canary() {
	toks := vhStream()
	def := &vhStreamDef{toks: toks}
	p := vhBuild[vgSeq](vhNoElide, def, 1)
	vFreeze(p)
	p.useLookahead = 2
	vAssert(!vSymbolic(), "canary: must fail")
}
