package participle

// C09 (parser side) — a built Parser is safe for concurrent and repeated
// use.  Decided through the sufficient condition the code is designed
// around: after Build every object reachable from the Parser is frozen
// (vFreeze); any store into such an object during Parse*/Lex/String ends the
// path as a violation.  Calls therefore work on disjoint mutable memory, so
// no interleaving can race on repository-owned memory and no call can
// observe an earlier one.  History independence is also asserted directly:
// the same call repeated on the same parser returns the same result.

import (
	"reflect"
	"strings"

	"github.com/alecthomas/participle/v2/lexer"
)

func vhC09Parse[G any](cfg vhConfig) {
	toks := vhStream()
	k := vInt("lookahead")
	trailing := vBool("allowTrailing")
	def := &vhStreamDef{toks: toks}
	p := vhBuild[G](cfg, def, k)
	vFreeze(p)
	a1, e1 := p.ParseString("f", "", AllowTrailing(trailing))
	a2, e2 := p.ParseString("f", "", AllowTrailing(trailing))
	_ = p.String()
	_, _ = p.Lex("f", strings.NewReader(""))
	a3, e3 := p.ParseString("f", "", AllowTrailing(trailing))
	vhSameError(e1, e2, "C09: repeated Parse")
	vhSameError(e1, e3, "C09: Parse after String/Lex")
	var g G
	root := vhGrammar(reflect.TypeOf(g), cfg.unions)
	if e1 == nil {
		vhSameAST(vhActual(root, reflect.ValueOf(a1).Elem()), vhActual(root, reflect.ValueOf(a2).Elem()), "C09: repeated Parse")
		vhSameAST(vhActual(root, reflect.ValueOf(a1).Elem()), vhActual(root, reflect.ValueOf(a3).Elem()), "C09: Parse after String/Lex")
		vReach("accepted")
	} else {
		vReach("rejected")
	}
}

func VH_C09_Parse_Alt()   { vhC09Parse[vgAlt](vhElideWs) }
func VH_C09_Parse_Group() { vhC09Parse[vgGroup](vhNoElide) }
func VH_C09_Parse_Sub()   { vhC09Parse[vgSub](vhNoElide) }
func VH_C09_Parse_Union() { vhC09Parse[vgUnion](vhUnionCfg) }
func VH_C09_Parse_Fold()  { vhC09Parse[vgFold](vhFoldA) }
func VH_C09_Parse_Leak()  { vhC09Parse[vgLeak](vhNoElide) }

// VH_C09_Parse_Retained: what an earlier Parse returned (token slices
// included: node Tokens fields and []lexer.Token captures point into the
// token buffer of that parse) is not changed by a later Parse of a different
// input through the same parser.
func vhOtherStream() []lexer.Token {
	var toks []lexer.Token
	types := []lexer.TokenType{vhTA, vhTB, vhTC, vhTB, vhTWs, vhTB}
	for i, ty := range types {
		toks = append(toks, lexer.Token{Type: ty, Value: "z", Pos: lexer.Position{Filename: "g", Offset: 100 + i, Line: 2, Column: i + 1}})
	}
	return append(toks, lexer.EOFToken(lexer.Position{Filename: "g", Offset: 100 + len(types), Line: 2, Column: len(types) + 1}))
}

func VH_C09_Parse_Retained() {
	toks := vhStream()
	k := vInt("lookahead")
	p := vhBuild[vgPos](vhElideWs, &vhStreamDef{toks: toks}, k)
	vFreeze(p)
	a1, e1 := p.ParseString("f", "", AllowTrailing(true))
	if e1 != nil {
		vReach("rejected")
		return
	}
	keep := append([]lexer.Token(nil), a1.Tokens...)
	var keepIn [][]lexer.Token
	for _, in := range a1.In {
		keepIn = append(keepIn, append([]lexer.Token(nil), in.Tokens...))
	}
	q := vhBuild[vgPos](vhElideWs, &vhStreamDef{toks: vhOtherStream()}, k)
	_, _ = q.ParseString("g", "", AllowTrailing(true))
	pt := vhBuild[vgTokens](vhElideWs, &vhStreamDef{toks: vhOtherStream()}, k)
	_, _ = pt.ParseString("g", "", AllowTrailing(true))
	vAssert(len(keep) == len(a1.Tokens), "C09: a later Parse changed the AST an earlier Parse returned")
	for i := range keep {
		vAssert(keep[i] == a1.Tokens[i], "C09: a later Parse changed the tokens an earlier Parse returned")
	}
	for j, in := range a1.In {
		for i := range keepIn[j] {
			vAssert(keepIn[j][i] == in.Tokens[i], "C09: a later Parse changed the tokens of a node an earlier Parse returned")
		}
	}
	if len(keep) > 1 {
		vReach("accepted")
	}
}

func VH_C09_Parse_RetainedCapture() {
	toks := vhStream()
	k := vInt("lookahead")
	p := vhBuild[vgTokens](vhElideWs, &vhStreamDef{toks: toks}, k)
	vFreeze(p)
	a1, e1 := p.ParseString("f", "", AllowTrailing(true))
	if e1 != nil {
		vReach("rejected")
		return
	}
	t0 := a1.T
	keep := append([]lexer.Token(nil), a1.R...)
	q := vhBuild[vgTokens](vhElideWs, &vhStreamDef{toks: vhOtherStream()}, k)
	_, _ = q.ParseString("g", "", AllowTrailing(true))
	vAssert(t0 == a1.T && len(keep) == len(a1.R), "C09: a later Parse changed the AST an earlier Parse returned")
	for i := range keep {
		vAssert(keep[i] == a1.R[i], "C09: a later Parse changed the captured tokens an earlier Parse returned")
	}
	if len(keep) > 0 {
		vReach("accepted")
	}
}

// VH_C09_Production: deriving a parser for a sub-production from a built
// (frozen) parser, and using it, leaves the original parser as it was: same
// String(), same parse results as before.
func VH_C09_Production() {
	toks := vhStream()
	k := vInt("lookahead")
	p := vhBuild[vgSub](vhNoElide, &vhStreamDef{toks: toks}, k)
	vFreeze(p)
	before := p.String()
	a1, e1 := p.ParseString("f", "", AllowTrailing(true))
	pp, err := ParserForProduction[vgSubInner](p)
	vAssert(err == nil && pp != nil, "ParserForProduction failed for a production of the grammar")
	_, _ = pp.ParseString("f", "", AllowTrailing(true))
	vAssert(p.String() == before, "C09: using ParserForProduction changed what the original parser prints")
	a2, e2 := p.ParseString("f", "", AllowTrailing(true))
	vhSameError(e1, e2, "C09: Parse after ParserForProduction")
	root := vhGrammar(reflect.TypeOf(vgSub{}), nil)
	if e1 == nil {
		vhSameAST(vhActual(root, reflect.ValueOf(a1).Elem()), vhActual(root, reflect.ValueOf(a2).Elem()), "C09: Parse after ParserForProduction")
		vReach("accepted")
	} else {
		vReach("rejected")
	}
}

// the trap itself must fire when shared state is written
func VH_C09_Parse_Canary() {
	toks := vhStream()
	def := &vhStreamDef{toks: toks}
	p := vhBuild[vgSeq](vhNoElide, def, 1)
	vFreeze(p)
	p.useLookahead = 2
	vAssert(!vSymbolic(), "canary: must fail")
}

// VH_C09_Parse_Mapped: a parser with 1..5 mappers for every token and two
// typed mappers (Upper on A, a marking Map on B): lexing through it twice
// gives the same, correct tokens, whatever token types were
// seen before (a lazily built or cached mapper chain would be shared state).
func VH_C09_Parse_Mapped() {
	toks := vhMapStream()
	id := func(t lexer.Token) (lexer.Token, error) { return t, nil }
	mark := func(t lexer.Token) (lexer.Token, error) {
		t.Value = "#" + t.Value
		return t, nil
	}
	opts := []Option{Lexer(&vhMapDef{toks: toks})}
	n := 1 + vChoose("globals", 5)
	for i := 0; i < n; i++ {
		opts = append(opts, Map(id))
	}
	opts = append(opts, Upper("A"), Map(mark, "B"))
	p, err := Build[vgMapped](opts...)
	vAssert(err == nil, "catalogue grammar must build")
	// not frozen: the mapper chain lives in variables captured by a closure,
	// which the native fingerprint behind vFreeze cannot see; history
	// independence is asserted on the results instead
	for round := 0; round < 2; round++ {
		got, lerr := p.Lex("f", strings.NewReader(""))
		vAssert(lerr == nil && len(got) == len(toks), "C09: lexing through the mappers failed")
		for i, t := range toks {
			want := t.Value
			switch t.Type {
			case vhTA:
				want = strings.ToUpper(t.Value)
			case vhTB:
				want = "#" + t.Value
			}
			vAssert(got[i].Value == want && got[i].Type == t.Type, "C09: a token is mapped differently depending on what the parser mapped before")
		}
	}
	vReach("mapped")
}
