package participle

// Reference semantics of participle grammars, written from the README
// ("Grammar syntax", UseLookahead, Elide, CaseInsensitive, Union) and the
// statements of C01/C02/C10/C11/C13.  It never looks at nodes.go,
// context.go or grammar.go:
//
//   - vhGrammarOf reads the struct tags of a grammar type with its own tag
//     lexer and parser and produces an abstract grammar (rx / rprod);
//   - (*refctx).eval gives the ordered-choice, bounded-backtracking meaning;
//   - vhExpect turns the accepted derivation into the expected AST shape
//     (vnode), vhActual reads the real AST into the same shape.
//
// It is executed symbolically like any other code and natively on replay.

import (
	"reflect"
	"strconv"

	"github.com/alecthomas/participle/v2/lexer"
)

// ---------- tag lexer (own implementation of the tag alphabet) ----------

type vtag struct {
	kind  byte // 'i' ident, 's' string, 'p' punctuation, 0 end
	text  string
	field int
}

func vhIsIdentStart(c byte) bool {
	return c == '_' || (c >= 'a' && c <= 'z') || (c >= 'A' && c <= 'Z')
}

func vhLexTag(tag string, field int, out []vtag) []vtag {
	i := 0
	for i < len(tag) {
		c := tag[i]
		switch {
		case c == ' ' || c == '\t' || c == '\n':
			i++
		case c == '"' || c == '\'':
			j := i + 1
			for j < len(tag) && tag[j] != c {
				if tag[j] == '\\' {
					j++
				}
				j++
			}
			body := tag[i+1 : j]
			val, err := strconv.Unquote("\"" + body + "\"")
			if err != nil {
				val = body
			}
			out = append(out, vtag{'s', val, field})
			i = j + 1
		case c == '`':
			j := i + 1
			for j < len(tag) && tag[j] != '`' {
				j++
			}
			out = append(out, vtag{'s', tag[i+1 : j], field})
			i = j + 1
		case vhIsIdentStart(c):
			j := i
			for j < len(tag) && (vhIsIdentStart(tag[j]) || (tag[j] >= '0' && tag[j] <= '9')) {
				j++
			}
			out = append(out, vtag{'i', tag[i:j], field})
			i = j
		default:
			out = append(out, vtag{'p', tag[i : i+1], field})
			i++
		}
	}
	return out
}

// ---------- tag parser ----------

type vtagParser struct {
	syntaxOnly bool // parse without resolving fields / sub-productions
	toks       []vtag
	pos        int
	prod       *rprod
	prods      map[reflect.Type]*rprod
	union      map[reflect.Type][]reflect.Type
}

func (p *vtagParser) peek() vtag {
	if p.pos < len(p.toks) {
		return p.toks[p.pos]
	}
	return vtag{}
}

func (p *vtagParser) isPunct(s string) bool {
	t := p.peek()
	return t.kind == 'p' && t.text == s
}

func (p *vtagParser) expect(s string) {
	if !p.isPunct(s) {
		panic("reference tag parser: expected " + s)
	}
	p.pos++
}

func (p *vtagParser) disj() *rx {
	alts := []*rx{p.seq()}
	for p.isPunct("|") {
		p.pos++
		alts = append(alts, p.seq())
	}
	if len(alts) == 1 {
		return alts[0]
	}
	return &rx{kind: kAlt, kids: alts}
}

func (p *vtagParser) seq() *rx {
	var terms []*rx
	for {
		t := p.peek()
		if t.kind == 0 || (t.kind == 'p' && (t.text == ")" || t.text == "]" || t.text == "}" || t.text == "|")) {
			break
		}
		terms = append(terms, p.term())
	}
	if len(terms) == 0 {
		panic("reference tag parser: empty sequence")
	}
	if len(terms) == 1 {
		return terms[0]
	}
	return &rx{kind: kSeq, kids: terms}
}

func (p *vtagParser) term() *rx {
	a := p.atom()
	t := p.peek()
	if t.kind == 'p' {
		mode := -1
		switch t.text {
		case "?":
			mode = mOpt
		case "*":
			mode = mStar
		case "+":
			mode = mPlus
		case "!":
			mode = mNonEmpty
		}
		if mode >= 0 {
			p.pos++
			return &rx{kind: kGrp, mode: mode, kids: []*rx{a}}
		}
	}
	return a
}

func (p *vtagParser) atom() *rx {
	t := p.peek()
	switch t.kind {
	case 's':
		p.pos++
		if p.isPunct(":") {
			p.pos++
			ty := p.peek()
			if ty.kind != 'i' {
				panic("reference tag parser: expected a token name after ':'")
			}
			p.pos++
			return &rx{kind: kTLit, s: t.text, typ: ty.text}
		}
		return &rx{kind: kLit, s: t.text}
	case 'i':
		p.pos++
		return &rx{kind: kRef, typ: t.text}
	case 'p':
		switch t.text {
		case "@":
			p.pos++
			fi := p.fieldIndex(t.field)
			if p.syntaxOnly {
				if p.isPunct("@") {
					p.pos++
					return &rx{kind: kSub, field: fi}
				}
				return &rx{kind: kCap, field: fi, kids: []*rx{p.atom()}}
			}
			if p.isPunct("@") {
				p.pos++
				f := &p.prod.fields[fi]
				if f.sub == nil {
					f.sub = p.production(vhIndirect(p.prod.typ.FieldByIndex(f.index).Type))
				}
				return &rx{kind: kSub, field: fi, prod: f.sub}
			}
			return &rx{kind: kCap, field: fi, kids: []*rx{p.atom()}}
		case "(":
			p.pos++
			if p.isPunct("?") {
				p.pos++
				neg := p.isPunct("!")
				if !neg && !p.isPunct("=") {
					panic("reference tag parser: expected = or ! after (?")
				}
				p.pos++
				body := p.disj()
				p.expect(")")
				return &rx{kind: kLA, neg: neg, kids: []*rx{body}}
			}
			body := p.disj()
			p.expect(")")
			return &rx{kind: kGrp, mode: mOnce, kids: []*rx{body}}
		case "[":
			p.pos++
			body := p.disj()
			p.expect("]")
			return &rx{kind: kGrp, mode: mOpt, kids: []*rx{body}}
		case "{":
			p.pos++
			body := p.disj()
			p.expect("}")
			return &rx{kind: kGrp, mode: mStar, kids: []*rx{body}}
		case "~", "!":
			p.pos++
			return &rx{kind: kNeg, kids: []*rx{p.atom()}}
		}
	}
	panic("reference tag parser: unexpected token " + t.text)
}

func (p *vtagParser) fieldIndex(tagField int) int {
	return tagField
}

func vhIndirect(t reflect.Type) reflect.Type {
	for t.Kind() == reflect.Ptr || t.Kind() == reflect.Slice {
		t = t.Elem()
	}
	return t
}

var (
	vhTokenType  = reflect.TypeOf(lexer.Token{})
	vhTokensType = reflect.TypeOf([]lexer.Token{})
	vhPosType    = reflect.TypeOf(lexer.Position{})
)

func vhFieldKind(t reflect.Type) int {
	switch {
	case t == vhTokenType, t.Kind() == reflect.Ptr && t.Elem() == vhTokenType:
		return fTok
	case t == vhTokensType, t.Kind() == reflect.Ptr && t.Elem() == vhTokensType:
		return fToks
	}
	switch t.Kind() {
	case reflect.String:
		return fStr
	case reflect.Bool:
		return fBool
	case reflect.Interface:
		return fUnion
	case reflect.Struct:
		return fSubV
	case reflect.Ptr:
		if t.Elem().Kind() == reflect.Struct {
			return fSubP
		}
	case reflect.Slice:
		e := t.Elem()
		switch {
		case e.Kind() == reflect.String:
			return fStrs
		case e.Kind() == reflect.Interface:
			return fUnions
		case e.Kind() == reflect.Struct:
			return fSubVS
		case e.Kind() == reflect.Ptr && e.Elem().Kind() == reflect.Struct:
			return fSubPS
		}
	}
	return fOther
}

func vhTagOf(f reflect.StructField) string {
	if tag, ok := f.Tag.Lookup("parser"); ok {
		return tag
	}
	return string(f.Tag)
}

// collect grammar fields (flattening embedded structs), as documented.
func (p *vtagParser) collect(t reflect.Type, prefix []int, pr *rprod) {
	for i := 0; i < t.NumField(); i++ {
		f := t.Field(i)
		idx := append(append([]int{}, prefix...), i)
		switch {
		case f.Anonymous && f.Type.Kind() == reflect.Struct:
			p.collect(f.Type, idx, pr)
		case f.PkgPath != "":
		case vhTagOf(f) != "":
			pr.fields = append(pr.fields, rfield{name: f.Name, kind: vhFieldKind(f.Type), index: idx})
		}
	}
}

func (p *vtagParser) production(t reflect.Type) *rprod {
	if pr, ok := p.prods[t]; ok {
		return pr
	}
	pr := &rprod{name: t.Name(), typ: t}
	p.prods[t] = pr
	if t.Kind() == reflect.Interface {
		pr.union = true
		for _, m := range p.union[t] {
			pr.members = append(pr.members, p.production(vhIndirect(m)))
		}
		return pr
	}
	if f, ok := t.FieldByName("Pos"); ok && vhPosType.ConvertibleTo(f.Type) {
		pr.posIdx = f.Index
	}
	if f, ok := t.FieldByName("EndPos"); ok && vhPosType.ConvertibleTo(f.Type) {
		pr.endIdx = f.Index
	}
	if f, ok := t.FieldByName("Tokens"); ok && f.Type == vhTokensType {
		pr.toksIdx = f.Index
	}
	p.collect(t, nil, pr)
	var toks []vtag
	for i, f := range pr.fields {
		toks = vhLexTag(vhTagOf(t.FieldByIndex(f.index)), i, toks)
	}
	saved := *p
	p.toks, p.pos, p.prod = toks, 0, pr
	pr.expr = p.disj()
	if p.peek().kind != 0 {
		panic("reference tag parser: trailing tokens in " + t.Name())
	}
	p.toks, p.pos, p.prod = saved.toks, saved.pos, saved.prod
	return pr
}

// vhGrammarOf builds the abstract grammar of struct type t; unions maps a
// union interface type to its member types, in order.
func vhGrammarOf(t reflect.Type, unions map[reflect.Type][]reflect.Type) *rprod {
	p := &vtagParser{prods: map[reflect.Type]*rprod{}, union: unions}
	return p.production(t)
}

// ---------- reference evaluation ----------

type rcap struct {
	field int
	a, b  int           // raw token range of the capture
	fst   int           // 1 + raw index of the first token the capture matched (0: none)
	vals  []interface{} // string or *rnode
}

type rnode struct {
	p    *rprod
	caps []rcap
	a, b int
}

type rres struct {
	st   int // 0 no match, 1 match, 2 fail
	r    int
	fst  int // 1 + raw index of the first token matched (0: none)
	vals []interface{}
	caps []rcap
}

type refctx struct {
	T     []lexer.Token
	elide map[lexer.TokenType]bool
	k     int
	sym   map[string]lexer.TokenType
	ci    map[lexer.TokenType]bool
	bug   bool // the grammar is one the library itself defines as buggy (non-progressing accepted branch)
}

func (c *refctx) elided(i int) bool {
	return !c.T[i].EOF() && c.elide[c.T[i].Type]
}

func (c *refctx) nx(r int) int {
	for c.elided(r) {
		r++
	}
	return r
}

func (c *refctx) cnt(r int) int {
	n := 0
	for i := 0; i < r; i++ {
		if !c.elided(i) {
			n++
		}
	}
	return n
}

// final: an attempt that started at r0 and failed at r1 may not be abandoned.
func (c *refctx) final(r0, r1 int) bool {
	return c.k >= 0 && c.cnt(r1)-c.cnt(r0) > c.k
}

func vhFoldASCII(b byte) byte {
	if b >= 'A' && b <= 'Z' {
		return b + 'a' - 'A'
	}
	return b
}

func (c *refctx) textEq(t lexer.Token, lit string) bool {
	if !c.ci[t.Type] {
		return t.Value == lit
	}
	if len(t.Value) != len(lit) {
		return false
	}
	for i := 0; i < len(lit); i++ {
		if vhFoldASCII(t.Value[i]) != vhFoldASCII(lit[i]) {
			return false
		}
	}
	return true
}

func (c *refctx) term(r int, m func(lexer.Token) bool) rres {
	j := r
	for {
		t := c.T[j]
		if t.EOF() || m(t) || !c.elided(j) {
			break
		}
		j++
	}
	if m(c.T[j]) {
		return rres{st: 1, r: j + 1, fst: j + 1, vals: []interface{}{c.T[j].Value}}
	}
	return rres{st: 0, r: r}
}

func (c *refctx) evalProd(p *rprod, r int) rres {
	if p.union {
		failed := false
		for _, m := range p.members {
			x := c.evalProd(m, r)
			switch x.st {
			case 1:
				return x
			case 2:
				if c.final(r, x.r) {
					return x
				}
				failed = true
			}
		}
		if failed {
			return rres{st: 2, r: r}
		}
		return rres{st: 0, r: r}
	}
	x := c.eval(p.expr, r)
	if x.st != 1 {
		return rres{st: x.st, r: x.r}
	}
	n := &rnode{p: p, caps: x.caps, a: r, b: x.r}
	return rres{st: 1, r: x.r, fst: x.fst, vals: []interface{}{n}}
}

func (c *refctx) eval(e *rx, r int) rres {
	switch e.kind {
	case kLit:
		return c.term(r, func(t lexer.Token) bool { return !t.EOF() && c.textEq(t, e.s) })
	case kTLit:
		return c.term(r, func(t lexer.Token) bool { return t.Type == c.sym[e.typ] && c.textEq(t, e.s) })
	case kRef:
		return c.term(r, func(t lexer.Token) bool { return t.Type == c.sym[e.typ] })
	case kSeq:
		out := rres{st: 1, r: r}
		for i, k := range e.kids {
			x := c.eval(k, out.r)
			switch x.st {
			case 0:
				if i == 0 {
					return rres{st: 0, r: r}
				}
				return rres{st: 2, r: out.r}
			case 2:
				return rres{st: 2, r: x.r}
			}
			out.r = x.r
			if out.fst == 0 {
				out.fst = x.fst
			}
			out.vals = append(out.vals, x.vals...)
			out.caps = append(out.caps, x.caps...)
		}
		return out
	case kAlt:
		failed := false
		for _, k := range e.kids {
			x := c.eval(k, r)
			switch x.st {
			case 1:
				if x.r == r && !c.T[r].EOF() {
					c.bug = true
				}
				return x
			case 2:
				if c.final(r, x.r) {
					return x
				}
				failed = true
			}
		}
		if failed {
			return rres{st: 2, r: r}
		}
		return rres{st: 0, r: r}
	case kGrp:
		body := e.kids[0]
		switch e.mode {
		case mOnce:
			return c.eval(body, r)
		case mNonEmpty:
			x := c.eval(body, r)
			if x.st == 2 {
				return x
			}
			// "Require a non-empty match": it is consumed input that counts, not
			// produced values (a capture of nothing still yields a value)
			if len(x.vals) == 0 || x.r == r {
				return rres{st: 2, r: x.r}
			}
			return x
		case mOpt:
			x := c.eval(body, r)
			if x.st == 1 {
				return x
			}
			if x.st == 2 && c.final(r, x.r) {
				return x
			}
			return rres{st: 1, r: r}
		default:
			out := rres{st: 1, r: r}
			n := 0
			for iter := 0; iter < 64; iter++ {
				x := c.eval(body, out.r)
				if x.st == 2 {
					if c.final(out.r, x.r) {
						return x
					}
					break
				}
				if x.st == 0 {
					break
				}
				if x.r == out.r {
					c.bug = true
					break
				}
				out.r = x.r
				if out.fst == 0 {
					out.fst = x.fst
				}
				out.vals = append(out.vals, x.vals...)
				out.caps = append(out.caps, x.caps...)
				n++
			}
			if e.mode == mPlus && n == 0 {
				return rres{st: 0, r: r}
			}
			return out
		}
	case kCap:
		x := c.eval(e.kids[0], r)
		if x.st != 1 {
			return rres{st: x.st, r: x.r}
		}
		cp := rcap{field: e.field, a: r, b: x.r, fst: x.fst, vals: x.vals}
		return rres{st: 1, r: x.r, fst: x.fst, vals: []interface{}{"<parent>"}, caps: append(append([]rcap{}, x.caps...), cp)}
	case kSub:
		x := c.evalProd(e.prod, r)
		if x.st != 1 {
			return rres{st: x.st, r: x.r}
		}
		cp := rcap{field: e.field, a: r, b: x.r, fst: x.fst, vals: x.vals}
		return rres{st: 1, r: x.r, fst: x.fst, vals: []interface{}{"<parent>"}, caps: []rcap{cp}}
	case kNeg:
		if c.T[c.nx(r)].EOF() {
			return rres{st: 0, r: r}
		}
		x := c.eval(e.kids[0], r)
		if x.st == 1 {
			return rres{st: 2, r: r}
		}
		j := c.nx(r)
		return rres{st: 1, r: j + 1, fst: j + 1, vals: []interface{}{c.T[j].Value}}
	case kLA:
		x := c.eval(e.kids[0], r)
		m := x.st == 1
		if m != e.neg {
			return rres{st: 1, r: r}
		}
		return rres{st: 2, r: r}
	}
	panic("reference: unknown node kind")
}

// vhRefParse gives the verdict of the reference semantics on the whole stream.
func (c *refctx) parse(root *rprod, allowTrailing bool) (bool, *rnode, int) {
	x := c.evalProd(root, 0)
	if x.st != 1 {
		return false, nil, x.r
	}
	if !c.T[c.nx(x.r)].EOF() && !allowTrailing {
		return false, nil, x.r
	}
	return true, x.vals[0].(*rnode), x.r
}

// ---------- canonical AST shape ----------

type vfield struct {
	kind int
	str  string
	strs []string
	b    bool
	tok  int   // raw index of the captured token, -1 if none
	toks []int // raw indices
	subs []*vnode
}

type vnode struct {
	prod             *rprod
	member           string // union member type name
	fields           []vfield
	a, b             int
	hasPos, hasEnd   bool
	hasToks          bool
	pos, end         lexer.Position
	toks             []int
	consumedNonEmpty bool
}

// vhExpect builds the expected AST of node n.
func (c *refctx) expect(n *rnode) *vnode {
	v := &vnode{prod: n.p, member: n.p.name, a: n.a, b: n.b}
	v.fields = make([]vfield, len(n.p.fields))
	for i, f := range n.p.fields {
		v.fields[i] = vfield{kind: f.kind, tok: -1}
	}
	for _, cp := range n.caps {
		f := &v.fields[cp.field]
		switch f.kind {
		case fStr:
			for _, x := range cp.vals {
				f.str += x.(string)
			}
		case fStrs:
			for _, x := range cp.vals {
				f.strs = append(f.strs, x.(string))
			}
		case fBool:
			if len(cp.vals) > 0 {
				f.b = true
			}
		case fTok:
			// first token the capture matched (C01): elided tokens skipped on the way
			// to it are not part of the match
			if cp.fst > 0 {
				f.tok = cp.fst - 1
			}
		case fToks:
			f.toks = nil
			if cp.fst > 0 {
				for i := cp.fst - 1; i < cp.b; i++ {
					f.toks = append(f.toks, i)
				}
			}
		case fSubP, fSubV, fUnion:
			f.subs = []*vnode{c.expect(cp.vals[0].(*rnode))}
		case fSubPS, fSubVS, fUnions:
			f.subs = append(f.subs, c.expect(cp.vals[0].(*rnode)))
		}
	}
	return v
}

func vhTokIndex(t lexer.Token) int { return t.Pos.Offset }

// vhActual reads the real AST value rv (a struct) into the canonical shape.
func vhActual(p *rprod, rv reflect.Value) *vnode {
	v := &vnode{prod: p, member: rv.Type().Name()}
	if p.union {
		for _, m := range p.members {
			if m.typ == rv.Type() {
				p = m
			}
		}
		v.prod = p
	}
	v.fields = make([]vfield, len(p.fields))
	for i, f := range p.fields {
		fv := rv.FieldByIndex(f.index)
		out := vfield{kind: f.kind, tok: -1}
		switch f.kind {
		case fStr:
			out.str = fv.String()
		case fStrs:
			for j := 0; j < fv.Len(); j++ {
				out.strs = append(out.strs, fv.Index(j).String())
			}
		case fBool:
			out.b = fv.Bool()
		case fTok:
			if fv.Kind() == reflect.Ptr {
				if fv.IsNil() {
					break
				}
				fv = fv.Elem()
			}
			t := fv.Interface().(lexer.Token)
			if t != (lexer.Token{}) {
				out.tok = vhTokIndex(t)
			}
		case fToks:
			if fv.Kind() == reflect.Ptr {
				if fv.IsNil() {
					break
				}
				fv = fv.Elem()
			}
			for _, t := range fv.Interface().([]lexer.Token) {
				out.toks = append(out.toks, vhTokIndex(t))
			}
		case fSubP:
			if !fv.IsNil() {
				out.subs = []*vnode{vhActual(f.sub, fv.Elem())}
			}
		case fSubV:
			if !fv.IsZero() {
				out.subs = []*vnode{vhActual(f.sub, fv)}
			}
		case fUnion:
			if !fv.IsNil() {
				out.subs = []*vnode{vhActual(f.sub, vhDeref(fv.Elem()))}
			}
		case fSubPS:
			for j := 0; j < fv.Len(); j++ {
				out.subs = append(out.subs, vhActual(f.sub, fv.Index(j).Elem()))
			}
		case fSubVS:
			for j := 0; j < fv.Len(); j++ {
				out.subs = append(out.subs, vhActual(f.sub, fv.Index(j)))
			}
		case fUnions:
			for j := 0; j < fv.Len(); j++ {
				out.subs = append(out.subs, vhActual(f.sub, vhDeref(fv.Index(j).Elem())))
			}
		}
		v.fields[i] = out
	}
	if p.posIdx != nil {
		v.hasPos = true
		v.pos = rv.FieldByIndex(p.posIdx).Convert(vhPosType).Interface().(lexer.Position)
	}
	if p.endIdx != nil {
		v.hasEnd = true
		v.end = rv.FieldByIndex(p.endIdx).Convert(vhPosType).Interface().(lexer.Position)
	}
	if p.toksIdx != nil {
		v.hasToks = true
		for _, t := range rv.FieldByIndex(p.toksIdx).Interface().([]lexer.Token) {
			v.toks = append(v.toks, vhTokIndex(t))
		}
	}
	return v
}

func vhDeref(v reflect.Value) reflect.Value {
	for v.Kind() == reflect.Ptr {
		v = v.Elem()
	}
	return v
}

// vhSameAST asserts that the real AST equals the expected one in every
// captured field (fields that no accepted capture wrote must be zero).
func vhSameAST(want, got *vnode, tag string) {
	vAssert(want.member == got.member, tag+": wrong production / union member")
	vAssert(len(want.fields) == len(got.fields), tag+": field count")
	for i := range want.fields {
		w, g := want.fields[i], got.fields[i]
		switch w.kind {
		case fStr:
			vAssert(w.str == g.str, tag+": string field differs from the captured text")
		case fStrs:
			vAssert(len(w.strs) == len(g.strs), tag+": []string field has a different number of elements")
			for j := range w.strs {
				vAssert(w.strs[j] == g.strs[j], tag+": []string element differs")
			}
		case fBool:
			vAssert(w.b == g.b, tag+": bool field differs")
		case fTok:
			vAssert(w.tok == g.tok, tag+": lexer.Token field is not the first token the capture matched")
		case fToks:
			vAssert(len(w.toks) == len(g.toks), tag+": []lexer.Token field has a different length than the captured run")
			for j := range w.toks {
				vAssert(w.toks[j] == g.toks[j], tag+": []lexer.Token element differs")
			}
		case fSubP, fSubV, fUnion, fSubPS, fSubVS, fUnions:
			vAssert(len(w.subs) == len(g.subs), tag+": number of nested nodes differs")
			for j := range w.subs {
				vhSameAST(w.subs[j], g.subs[j], tag)
			}
		}
	}
}
