package participle

// Grammar catalogue (real struct tags, built by the real Build) and the
// harness entry points.

import (
	"reflect"

	"github.com/alecthomas/participle/v2/lexer"
)

// --- sequences, modifiers, groups

type vgSeq struct {
	A string   `@A`
	B string   `@"b"`
	C []string `@C*`
}

type vgAlt struct {
	X string `( @A "x"`
	Y string `| @A "y"`
	Z string `| @B )`
}

type vgOpt struct {
	A string `@A?`
	B string `@B`
	C bool   `@"!"?`
}

type vgPlus struct {
	A []string `@A+`
	B string   `@B?`
}

type vgGroup struct {
	K []string `( @A`
	V []string `  @B )*`
	T string   `@C?`
}

type vgNonEmpty struct {
	A string `( @A?`
	B string `  @B? )!`
	C string `@C?`
}

type vgSugar struct {
	A string   `[ @A ]`
	B []string `{ @B }`
	C string   `@C`
}

type vgMulti struct {
	S string `@( A B )`
	T string `@( "x" | C )?`
}

type vgParserTag struct {
	A string   `json:"a" parser:"@A ( ',' @A )*"`
	B []string `json:"b" parser:"@B*"`
}

// --- negation and lookahead groups

type vgNeg struct {
	A []string `( @~"x" )*`
	X string   `@"x"`
}

type vgNegOpt struct {
	A string   `@A`
	R []string `( @~"x" )?`
}

type vgNegTail struct {
	A string   `@A`
	R []string `@~"x"*`
}

type vgLookahead struct {
	A string `( (?= A B ) @A`
	B string `  @B`
	C string `| (?! "x" ) @( A | C ) )`
}

// --- typed literals, case-insensitive tokens

type vgTyped struct {
	X string `  @"x":A`
	Y string `| @"x":B`
	Z string `| @"x"`
}

type vgFold struct {
	K string `@"s":A`
	V string `@"s"?`
}

// --- sub-productions, recursion, unions

type vgSubInner struct {
	X string `@A`
	Y string `@B`
}

type vgSub struct {
	P *vgSubInner   `@@`
	L []*vgSubInner `@@*`
	T string        `@C?`
}

type vgValInner struct {
	X string `@A`
	Y string `@B?`
}

type vgVal struct {
	V vgValInner   `@@`
	L []vgValInner `@@*`
}

type vgRec struct {
	Head string `@A`
	Tail *vgRec `( "," @@ )?`
}

type vgUVal interface{ vgu() }

type vgUA struct {
	V string `@A`
}

func (vgUA) vgu() {}

type vgUB struct {
	V string `@B`
	W string `@C?`
}

func (vgUB) vgu() {}

type vgUnion struct {
	First vgUVal   `@@`
	Rest  []vgUVal `@@*`
}

// a union whose members implement the interface by value (first) and by
// pointer (second)
type vgUMix interface{ vgm() }

type vgMA struct {
	V string `@A`
}

func (vgMA) vgm() {}

type vgMB struct {
	V string `@B`
	W string `@C?`
}

func (*vgMB) vgm() {}

type vgUnionMixed struct {
	First vgUMix   `@@`
	Rest  []vgUMix `@@*`
}

// --- abandoned attempts (C02)

type vgLeakInner struct {
	V string `@B`
}

type vgLeak struct {
	A  string       `( @A`
	S1 *vgLeakInner `  @@ "!" )`
	B  string       `| ( @A`
	S2 *vgLeakInner `  @@ "?" )`
}

type vgLeakOpt struct {
	A []string `( @A @B "!" )?`
	R []string `@( A | B | C )*`
}

type vgLeakStar struct {
	P []string `( @A @B )*`
	Q []string `@A*`
	T string   `@C?`
}

type vgLeakNested struct {
	In  *vgSubInner `( @@ "!" )?`
	All []string    `@( A | B | "!" )*`
}

// a sub-production that can fail part-way inside an abandoned attempt
type vgPartInner struct {
	V string `@B`
	W string `@C`
}

type vgLeakPartial struct {
	A string       `( @A`
	S *vgPartInner `  @@ )`
	B string       `| @A`
	R []string     `  @( B | "?" )*`
}

type vgLeakPartialOpt struct {
	N string       `( @A`
	S *vgPartInner `  @@ )?`
	R []string     `@( A | B | C )*`
}

// a mandatory repetition with a multi-token body after a prefix, with a later alternative
type vgPlusPrefix struct {
	Names []string `"l" ( @A "=" )+ "e"`
	Name  string   `| "l" @A "e"`
}

type vgPlusOpt struct {
	K []string `( "l" ( @A @B )+ )?`
	R []string `@( "l" | A | B )*`
}

// --- token captures and elision (C01 / C10)

type vgTokens struct {
	T lexer.Token   `@A`
	R []lexer.Token `@( B C? )?`
}

// pointer-typed token captures
type vgPtrTokens struct {
	H string         `@A?`
	T *lexer.Token   `@B?`
	R *[]lexer.Token `@( A C? )?`
}

// a []lexer.Token field captured several times in a node that also has Tokens
type vgTokTwiceInner struct {
	Tokens []lexer.Token
	L      []lexer.Token `@B ( C @B )*`
}

type vgTokTwice struct {
	Tokens []lexer.Token
	A      string             `@A?`
	In     []*vgTokTwiceInner `@@*`
}

// three levels of embedding above two tagged sibling fields
type vgEmb3 struct {
	Var   string `( @A`
	Const string `| @B )`
}
type vgEmb2 struct{ vgEmb3 }
type vgEmb1 struct{ vgEmb2 }
type vgEmb0 struct {
	vgEmb1
	Tail string `@C?`
}

type vgEmptyTok struct {
	T lexer.Token `@( "a"? )`
	B string      `@B`
}

type vgElided struct {
	A []string `@A*`
	W []string `@Ws*`
	B string   `@B?`
}

// a grammar that names the elided type as a whole alternative
type vgNamedAlt struct {
	X []string `( @Ws | @A )*`
	B string   `@B?`
}

// --- positions (C11)

type vgPosInner struct {
	Pos    lexer.Position
	EndPos lexer.Position
	Tokens []lexer.Token
	V      string `@B`
	W      string `@C?`
}

type vgPos struct {
	Pos    lexer.Position
	EndPos lexer.Position
	Tokens []lexer.Token
	A      string        `@A?`
	In     []*vgPosInner `@@*`
}

// nodes whose last token is consumed by a negation (Next) rather than a literal/reference (FastForward)
type vgPosNegInner struct {
	Pos    lexer.Position
	EndPos lexer.Position
	Tokens []lexer.Token
	W      string `@~"x"`
}

type vgPosNeg struct {
	Pos    lexer.Position
	EndPos lexer.Position
	Tokens []lexer.Token
	In     []*vgPosNegInner `@@*`
	X      string           `@"x"?`
}

type vgPosBase struct {
	Pos    lexer.Position
	EndPos lexer.Position
	Tokens []lexer.Token
}

// embedded structs whose tagged fields share a Go name with an outer field or
// with a field of a sibling embedded struct (every tagged field is part of
// the grammar, whatever Go's selector rules say about shadowing)
type vgShadowInner struct {
	Name string `@A`
}

type vgShadowSib1 struct {
	V string `( @B`
}

type vgShadowSib2 struct {
	V string `  | @C )?`
}

type vgShadow struct {
	vgShadowInner
	Name string `"=" @A`
	vgShadowSib1
	vgShadowSib2
}

// position mixins embedded by pointer (the pointer is nil when parsing starts)
type VgPosMixin struct {
	Pos    lexer.Position
	EndPos lexer.Position
}

type vgPosPtrMixin struct {
	*VgPosMixin
	A string `@A`
	B string `@B?`
}

type vgPosPtrMixinUnexported struct {
	*vgPosBase
	A string `@A`
	B string `@B?`
}

type vgPosEmbedded struct {
	vgPosBase
	A string `@A`
	B string `@B?`
}

var (
	vhNoElide   = vhConfig{}
	vhElideWs   = vhConfig{elide: []string{"Ws"}}
	vhElideWsCm = vhConfig{elide: []string{"Ws", "Cm"}}
	vhFarElide  = vhConfig{elide: []string{"Ws", "Cm"}, syms: vhFarSymbols}
	vhFoldA     = vhConfig{ci: []string{"A"}}
	vhUnionCfg  = vhConfig{
		unions: map[reflect.Type][]reflect.Type{
			reflect.TypeOf((*vgUVal)(nil)).Elem(): {reflect.TypeOf(vgUA{}), reflect.TypeOf(vgUB{})},
		},
		opts: []Option{Union[vgUVal](vgUA{}, vgUB{})},
	}
	vhUnionMixedCfg = vhConfig{
		unions: map[reflect.Type][]reflect.Type{
			reflect.TypeOf((*vgUMix)(nil)).Elem(): {reflect.TypeOf(vgMA{}), reflect.TypeOf(&vgMB{})},
		},
		opts: []Option{Union[vgUMix](vgMA{}, &vgMB{})},
	}
)

func VH_C01_Seq()        { vhC01[vgSeq](vhNoElide) }
func VH_C01_Shadow()     { vhC01[vgShadow](vhElideWs) }
func VH_C01_Embedded3()  { vhC01[vgEmb0](vhElideWs) }
func VH_C01_PtrTokens()  { vhC01[vgPtrTokens](vhElideWs) }
func VH_C01_TokTwice()   { vhC01[vgTokTwice](vhElideWs) }
func VH_C01_FarTypes()   { vhC01[vgGroup](vhFarElide) }
func VH_C01_Alt()        { vhC01[vgAlt](vhNoElide) }
func VH_C01_Opt()        { vhC01[vgOpt](vhNoElide) }
func VH_C01_Plus()       { vhC01[vgPlus](vhNoElide) }
func VH_C01_Group()      { vhC01[vgGroup](vhNoElide) }
func VH_C01_NonEmpty()   { vhC01[vgNonEmpty](vhNoElide) }
func VH_C01_Sugar()      { vhC01[vgSugar](vhNoElide) }
func VH_C01_Multi()      { vhC01[vgMulti](vhNoElide) }
func VH_C01_ParserTag()  { vhC01[vgParserTag](vhNoElide) }
func VH_C01_Neg()        { vhC01[vgNeg](vhNoElide) }
func VH_C01_Lookahead()  { vhC01[vgLookahead](vhNoElide) }
func VH_C01_Typed()      { vhC01[vgTyped](vhNoElide) }
func VH_C01_Fold()       { vhC01[vgFold](vhFoldA) }
func VH_C01_Sub()        { vhC01[vgSub](vhNoElide) }
func VH_C01_Val()        { vhC01[vgVal](vhNoElide) }
func VH_C01_Rec()        { vhC01[vgRec](vhNoElide) }
func VH_C01_Union()      { vhC01[vgUnion](vhUnionCfg) }
func VH_C01_UnionMixed() { vhC01[vgUnionMixed](vhUnionMixedCfg) }
func VH_C01_Tokens()     { vhC01[vgTokens](vhElideWs) }
func VH_C01_ElideSeq()   { vhC01[vgSeq](vhElideWs) }
func VH_C01_ElideAlt()   { vhC01[vgAlt](vhElideWsCm) }

func VH_C02_Leak()       { vhC01[vgLeak](vhNoElide) }
func VH_C02_LeakOpt()    { vhC01[vgLeakOpt](vhNoElide) }
func VH_C02_LeakStar()   { vhC01[vgLeakStar](vhNoElide) }
func VH_C02_LeakNested() { vhC01[vgLeakNested](vhNoElide) }
func VH_C02_Alt()        { vhC01[vgAlt](vhNoElide) }
func VH_C02_Lookahead()  { vhC01[vgLookahead](vhNoElide) }
func VH_C02_Neg()        { vhC01[vgNeg](vhNoElide) }
func VH_C02_Union()      { vhC01[vgUnion](vhUnionCfg) }

func VH_C02_LeakPartial()    { vhC01[vgLeakPartial](vhNoElide) }
func VH_C02_LeakPartialOpt() { vhC01[vgLeakPartialOpt](vhNoElide) }

// captures inside the operand of a lookahead group are never visible
type vgLookaheadCapture struct {
	G string   `(?! @A B B )`
	P string   `(?= @( A | C ) )?`
	N string   `@A B`
	R []string `@( A | B | C )*`
}

func VH_C02_LookaheadCapture() { vhC01[vgLookaheadCapture](vhNoElide) }

// a capture around a group that contains a repetition: the values of a failed
// iteration must not reach the capture
type vgCapRep struct {
	Name string   `@( A ( B A )* )`
	Star bool     `( B @C )?`
	L    []string `@( A ( B C )+ )?`
	T    []string `( B @B )*`
}

func VH_C02_CapRep() { vhC01[vgCapRep](vhNoElide) }

// a non-empty group whose body can produce a value without consuming anything
type vgNonEmptyCap struct {
	A string `( @( A? ) @( B? ) )!`
	T string `@C?`
}

func VH_C01_NonEmptyCap() { vhC01[vgNonEmptyCap](vhNoElide) }

// captures that can succeed without matching anything: the field keeps its zero value
type vgEmptyCaptures struct {
	P bool     `@( A? )`
	Q bool     `@( C* )`
	S string   `@( A? )`
	L []string `@( C* )`
	N string   `@B`
}

func VH_C01_EmptyCaptures() { vhC01[vgEmptyCaptures](vhNoElide) }

func VH_C02_Canary() { VH_C01_Canary() }

func VH_C06_Seq()                { vhC06[vgSeq](vhNoElide) }
func VH_C06_Alt()                { vhC06[vgAlt](vhElideWs) }
func VH_C06_Group()              { vhC06[vgGroup](vhNoElide) }
func VH_C06_NonEmpty()           { vhC06[vgNonEmpty](vhNoElide) }
func VH_C06_Neg()                { vhC06[vgNeg](vhNoElide) }
func VH_C06_Sub()                { vhC06[vgSub](vhNoElide) }
func VH_C06_Union()              { vhC06[vgUnion](vhUnionCfg) }
func VH_C06_UnionMixed()         { vhC06[vgUnionMixed](vhUnionMixedCfg) }
func VH_C06_PtrMixin()           { vhC06[vgPosPtrMixin](vhElideWs) }
func VH_C06_PtrMixinUnexported() { vhC06[vgPosPtrMixinUnexported](vhElideWs) }
func VH_C06_EmptyTok()           { vhC06[vgEmptyTok](vhNoElide) }
func VH_C06_Tokens()             { vhC06[vgTokens](vhElideWs) }
func VH_C06_Leak()               { vhC06[vgLeak](vhNoElide) }

func VH_C06_NamedAlt()  { vhC06[vgNamedAlt](vhElideWs) }
func VH_C06_Elided()    { vhC06[vgElided](vhElideWs) }
func VH_C06_Lookahead() { vhC06[vgLookahead](vhElideWs) }

// numeric captures: a failed conversion is a located participle.Error too
type vgNumeric struct {
	N int8    `@A?`
	S []uint8 `@B*`
}

func VH_C06_Numeric() { vhC06[vgNumeric](vhNoElide) }

// a conversion that fails in a production that then also fails syntactically
type vgNumericSub struct {
	N int8   `@A`
	T string `@B`
	U string `@C`
}
type vgNumericSeq struct {
	Subs []*vgNumericSub `@@*`
	Tail string          `@A?`
}

func VH_C06_NumericSeq() { vhC06[vgNumericSeq](vhNoElide) }

func VH_C06_Canary() { VH_C01_Canary() }

func VH_C10_Seq()    { vhC10[vgSeq](vhElideWs) }
func VH_C10_Alt()    { vhC10[vgAlt](vhElideWsCm) }
func VH_C10_Group()  { vhC10[vgGroup](vhElideWs) }
func VH_C10_Opt()    { vhC10[vgOpt](vhElideWs) }
func VH_C10_Neg()    { vhC10[vgNeg](vhElideWs) }
func VH_C10_Sub()    { vhC10[vgSub](vhElideWsCm) }
func VH_C10_Tokens() { vhC10[vgTokens](vhElideWs) }
func VH_C10_Named()  { vhC01[vgElided](vhElideWs) } // a grammar that names the elided type

func VH_C10_NamedAlt() { vhC01[vgNamedAlt](vhElideWs) }

func VH_C10_NegOpt()  { vhC10[vgNegOpt](vhElideWs) }
func VH_C10_NegTail() { vhC10[vgNegTail](vhElideWsCm) }

// the same symbols numbered far from EOF and with positive values
func VH_C10_FarTypes()    { vhC10[vgAlt](vhFarElide) }
func VH_C10_FarTypesSeq() { vhC10[vgSeq](vhFarElide) }

func VH_C10_PtrTokens() { vhC10[vgPtrTokens](vhElideWs) }

func VH_C10_Canary() { VH_C01_Canary() }

func VH_C11_Pos()      { vhC11[vgPos](vhElideWs) }
func VH_C11_PosPlain() { vhC11[vgPos](vhNoElide) }
func VH_C11_Embedded() { vhC11[vgPosEmbedded](vhElideWs) }

func VH_C11_PosNeg() { vhC11[vgPosNeg](vhElideWs) }

// nodes with only some of the injected fields, and with Pos / EndPos of two
// different types (both convertible from lexer.Position)
type vhOtherPos lexer.Position

type vgEndOnlyInner struct {
	EndPos lexer.Position
	V      string `@B`
	W      string `@C?`
}

type vgEndOnly struct {
	EndPos vhOtherPos
	A      string            `@A?`
	In     []*vgEndOnlyInner `@@*`
}

type vgPosMixedInner struct {
	Pos    vhOtherPos
	EndPos lexer.Position
	V      string `@B`
	W      string `@C?`
}

type vgPosMixed struct {
	Pos    lexer.Position
	EndPos vhOtherPos
	A      string             `@A?`
	In     []*vgPosMixedInner `@@*`
}

type vgTokensOnlyInner struct {
	Tokens []lexer.Token
	V      string `@B`
}

type vgTokensOnly struct {
	Pos lexer.Position
	A   string               `@A?`
	In  []*vgTokensOnlyInner `@@*`
}

func VH_C11_EndOnly()    { vhC11[vgEndOnly](vhElideWs) }
func VH_C11_PosMixed()   { vhC11[vgPosMixed](vhElideWs) }
func VH_C11_TokensOnly() { vhC11[vgTokensOnly](vhElideWs) }

func VH_C11_TokTwice() { vhC11[vgTokTwice](vhElideWs) }

func VH_C11_Canary() { VH_C01_Canary() }

func VH_C13_Alt()      { vhC13[vgAlt](vhNoElide) }
func VH_C13_Group()    { vhC13[vgGroup](vhNoElide) }
func VH_C13_Opt()      { vhC13[vgOpt](vhElideWs) }
func VH_C13_Sub()      { vhC13[vgSub](vhNoElide) }
func VH_C13_Leak()     { vhC13[vgLeak](vhNoElide) }
func VH_C13_LeakOpt()  { vhC13[vgLeakOpt](vhNoElide) }
func VH_C13_LeakStar() { vhC13[vgLeakStar](vhNoElide) }
func VH_C13_Union()    { vhC13[vgUnion](vhUnionCfg) }
func VH_C13_Rec()      { vhC13[vgRec](vhNoElide) }

func VH_C13_PlusPrefix()  { vhC13[vgPlusPrefix](vhNoElide) }
func VH_C13_LeakPartial() { vhC13[vgLeakPartial](vhNoElide) }

// a nested choice behind an alternative that got deeper before it was abandoned
type vgDeepP struct {
	Z bool `A B ( C A @"z" )? "q"`
}
type vgDeepQ struct {
	X string `( A B C @"x" | A B C @A B )`
}
type vgDeepR struct {
	Rest []string `A @( A | B | C )*`
}
type vgDeep struct {
	P *vgDeepP `  @@`
	Q *vgDeepQ `| @@`
	R *vgDeepR `| @@`
}

func VH_C13_Deep() { vhC13[vgDeep](vhNoElide) }
func VH_C01_Deep() { vhC01[vgDeep](vhNoElide) }

func VH_C13_Canary() { VH_C01_Canary() }

func VH_C01_NegOpt()     { vhC01[vgNegOpt](vhElideWs) }
func VH_C01_NegTail()    { vhC01[vgNegTail](vhElideWs) }
func VH_C01_NamedAlt()   { vhC01[vgNamedAlt](vhElideWs) }
func VH_C01_PlusPrefix() { vhC01[vgPlusPrefix](vhNoElide) }
func VH_C01_PlusOpt()    { vhC01[vgPlusOpt](vhNoElide) }

func VH_C01_Canary() {
	toks := vhStream()
	def := &vhStreamDef{toks: toks}
	p := vhBuild[vgSeq](vhNoElide, def, 1)
	_, err := p.ParseString("f", "")
	vAssert(err != nil, "canary: must fail")
}
