package participle

// C17 — numeric captures convert exactly or fail with a located error.
//
// Family A (solver-decided): the captured text is opaque; strconv.ParseInt /
// ParseUint are uninterpreted functions constrained only by their documented
// contract (on success the value fits the requested bit size).  The harness
// asks the oracle for the result of the call the *property* prescribes
// (base 0, the field's bit size): a conversion with another function, base
// or size gets an unrelated result and the assertion fails.
//
// Family B (concrete boundary texts): joined tokens, slices, floats.

import (
	"reflect"
	"strconv"

	"github.com/alecthomas/participle/v2/lexer"
)

type vnInt8 struct {
	V int8 `@A`
}
type vnInt16 struct {
	V int16 `@A`
}
type vnInt32 struct {
	V int32 `@A`
}
type vnInt64 struct {
	V int64 `@A`
}
type vnInt struct {
	V int `@A`
}
type vnUint8 struct {
	V uint8 `@A`
}
type vnUint16 struct {
	V uint16 `@A`
}
type vnUint32 struct {
	V uint32 `@A`
}
type vnUint64 struct {
	V uint64 `@A`
}
type vnUint struct {
	V uint `@A`
}

type vnMyInt16 int16

type vnNamed struct {
	V vnMyInt16 `@A`
}
type vnPtr struct {
	V *int32 `@A`
}
type vnAlt struct {
	V int8   `  @A`
	S string `| @B`
}

// vhNumValue reads field 0 of the AST as (signed value, unsigned value, isZero/nil).
func vhNumValue(ast interface{}) (int64, uint64, bool) {
	f := reflect.ValueOf(ast).Elem().Field(0)
	if f.Kind() == reflect.Ptr {
		if f.IsNil() {
			return 0, 0, true
		}
		f = f.Elem()
	}
	switch f.Kind() {
	case reflect.Int, reflect.Int8, reflect.Int16, reflect.Int32, reflect.Int64:
		return f.Int(), uint64(f.Int()), false
	}
	return int64(f.Uint()), f.Uint(), false
}

func vhC17Scalar[G any](bits int, unsigned bool) {
	text := vNumText("num")
	pos := lexer.Position{Filename: "f", Offset: 0, Line: 1, Column: 1}
	toks := []lexer.Token{{Type: vhTA, Value: text, Pos: pos}, lexer.EOFToken(lexer.Position{Filename: "f", Offset: 1, Line: 1, Column: 2})}
	p := vhBuild[G](vhNoElide, &vhStreamDef{toks: toks}, 1)
	ast, err := p.ParseString("f", "")
	fn := "ParseInt"
	if unsigned {
		fn = "ParseUint"
	}
	want, ok := vParseOracle(fn, text, bits)
	if ok {
		vReach("converts")
		vAssert(err == nil, "C17: conversion accepted by strconv with the field's bit size but the parse failed")
		sv, uv, isNil := vhNumValue(ast)
		vAssert(!isNil, "C17: numeric pointer field left nil")
		if unsigned {
			vAssert(uv == uint64(want), "C17: stored value differs from strconv's result for the field's bit size")
		} else {
			vAssert(sv == want, "C17: stored value differs from strconv's result for the field's bit size")
		}
		return
	}
	vReach("rejects")
	vAssert(err != nil, "C17: text rejected by strconv for the field's bit size but the parse succeeded (wrapped, truncated or default value stored)")
	perr, isErr := err.(Error)
	vAssert(isErr, "C17: conversion error is not a participle.Error")
	vAssert(perr.Position() == pos, "C17: conversion error is not located at the first captured token")
	sv, _, isNil := vhNumValue(ast)
	vAssert(isNil || sv == 0, "C17: a value was stored although the conversion failed")
}

func VH_C17_Int8()   { vhC17Scalar[vnInt8](8, false) }
func VH_C17_Int16()  { vhC17Scalar[vnInt16](16, false) }
func VH_C17_Int32()  { vhC17Scalar[vnInt32](32, false) }
func VH_C17_Int64()  { vhC17Scalar[vnInt64](64, false) }
func VH_C17_Int()    { vhC17Scalar[vnInt](strconv.IntSize, false) }
func VH_C17_Uint8()  { vhC17Scalar[vnUint8](8, true) }
func VH_C17_Uint16() { vhC17Scalar[vnUint16](16, true) }
func VH_C17_Uint32() { vhC17Scalar[vnUint32](32, true) }
func VH_C17_Uint64() { vhC17Scalar[vnUint64](64, true) }
func VH_C17_Uint()   { vhC17Scalar[vnUint](strconv.IntSize, true) }
func VH_C17_Named()  { vhC17Scalar[vnNamed](16, false) }
func VH_C17_Ptr()    { vhC17Scalar[vnPtr](32, false) }

// Family B for the scalar kinds: the concrete boundary texts (base prefixes,
// underscores, leading zeros, out-of-range and malformed texts) through the
// real strconv on both sides.
func vhC17Texts[G any](bits int, unsigned bool) {
	text := vhNumTexts[vChoose("text", len(vhNumTexts))]
	pos := lexer.Position{Filename: "f", Offset: 0, Line: 1, Column: 1}
	toks := []lexer.Token{{Type: vhTA, Value: text, Pos: pos}, lexer.EOFToken(lexer.Position{Filename: "f", Offset: 1, Line: 1, Column: 2})}
	p := vhBuild[G](vhNoElide, &vhStreamDef{toks: toks}, 1)
	ast, err := p.ParseString("f", "")
	var want int64
	var ok bool
	if unsigned {
		u, e := strconv.ParseUint(text, 0, bits)
		want, ok = int64(u), e == nil
	} else {
		v, e := strconv.ParseInt(text, 0, bits)
		want, ok = v, e == nil
	}
	if ok {
		vReach("converts")
		vAssert(err == nil, "C17: text accepted by strconv (base prefixes allowed) with the field's bit size but the parse failed")
		sv, uv, isNil := vhNumValue(ast)
		vAssert(!isNil, "C17: numeric pointer field left nil")
		if unsigned {
			vAssert(uv == uint64(want), "C17: stored value differs from strconv's result for the field's bit size")
		} else {
			vAssert(sv == want, "C17: stored value differs from strconv's result for the field's bit size")
		}
		return
	}
	vReach("rejects")
	vAssert(err != nil, "C17: text rejected by strconv for the field's bit size but the parse succeeded")
	perr, isErr := err.(Error)
	vAssert(isErr && perr.Position() == pos, "C17: conversion error is not a participle.Error located at the captured token")
}

func VH_C17_Texts_Int8()   { vhC17Texts[vnInt8](8, false) }
func VH_C17_Texts_Int16()  { vhC17Texts[vnInt16](16, false) }
func VH_C17_Texts_Int32()  { vhC17Texts[vnInt32](32, false) }
func VH_C17_Texts_Int64()  { vhC17Texts[vnInt64](64, false) }
func VH_C17_Texts_Int()    { vhC17Texts[vnInt](strconv.IntSize, false) }
func VH_C17_Texts_Uint8()  { vhC17Texts[vnUint8](8, true) }
func VH_C17_Texts_Uint16() { vhC17Texts[vnUint16](16, true) }
func VH_C17_Texts_Uint32() { vhC17Texts[vnUint32](32, true) }
func VH_C17_Texts_Uint64() { vhC17Texts[vnUint64](64, true) }
func VH_C17_Texts_Uint()   { vhC17Texts[vnUint](strconv.IntSize, true) }
func VH_C17_Texts_Named()  { vhC17Texts[vnNamed](16, false) }
func VH_C17_Texts_Ptr()    { vhC17Texts[vnPtr](32, false) }

// An enclosing alternative may accept the input another way; otherwise the
// conversion failure fails the parse.
func VH_C17_Alt() {
	text := vNumText("num")
	pos := lexer.Position{Filename: "f", Offset: 0, Line: 1, Column: 1}
	ty := lexer.TokenType(vInt("type"))
	vAssume(ty != lexer.EOF)
	toks := []lexer.Token{{Type: ty, Value: text, Pos: pos}, lexer.EOFToken(lexer.Position{Filename: "f", Offset: 1, Line: 1, Column: 2})}
	p := vhBuild[vnAlt](vhNoElide, &vhStreamDef{toks: toks}, vInt("lookahead"))
	ast, err := p.ParseString("f", "")
	if ty == vhTB {
		vAssert(err == nil && ast.S == text && ast.V == 0, "C17: the other alternative must accept a B token")
		vReach("other-alternative")
		return
	}
	if ty != vhTA {
		vAssert(err != nil, "C17: neither alternative matches")
		return
	}
	want, ok := vParseOracle("ParseInt", text, 8)
	if ok {
		vAssert(err == nil && int64(ast.V) == want && ast.S == "", "C17: numeric alternative must store strconv's result")
		vReach("converts")
	} else {
		vAssert(err != nil, "C17: failed conversion and no other alternative accepts: Parse must return an error")
		vReach("rejects")
	}
}

// ---------- family B: concrete boundary texts ----------

var vhNumTexts = []string{
	"0", "7", "127", "128", "255", "256", "32767", "32768", "65535", "65536", "2147483647", "2147483648",
	"4294967295", "4294967296", "9223372036854775807", "9223372036854775808", "18446744073709551615", "18446744073709551616",
	"0x7f", "0x80", "0XFF", "0b101", "0o17", "017", "1_000", "1__0", "", "x", "1e3", "1.5", "Inf", "NaN", "+5", "1e39", "3.4028235e38", "3.5e38", "1.00000005960464477539062500001", "0x1p-2", "-0", "1_0.5",
}

type vnJoin struct {
	V int16 `@( "-"? A )`
}
type vnSlice struct {
	V []int8 `@A+`
}
type vnSliceBatch struct {
	V []int8 `@( A+ )`
}
type vnUSlice struct {
	V []uint16 `@A+`
}
type vnF32 struct {
	V float32 `@A`
}
type vnF64 struct {
	V float64 `@( "-"? A )`
}

func vhNumStream(n int, minus bool) ([]lexer.Token, []string) {
	var toks []lexer.Token
	var texts []string
	off := 0
	add := func(ty lexer.TokenType, v string) {
		toks = append(toks, lexer.Token{Type: ty, Value: v, Pos: lexer.Position{Filename: "f", Offset: off, Line: 1, Column: off + 1}})
		off++
	}
	if minus {
		add(vhTB, "-")
	}
	for i := 0; i < n; i++ {
		t := vhNumTexts[vChoose("text", len(vhNumTexts))]
		texts = append(texts, t)
		add(vhTA, t)
	}
	toks = append(toks, lexer.EOFToken(lexer.Position{Filename: "f", Offset: off, Line: 1, Column: off + 1}))
	return toks, texts
}

func VH_C17_Join() {
	minus := vBool("minus")
	toks, texts := vhNumStream(1, minus)
	p := vhBuild[vnJoin](vhNoElide, &vhStreamDef{toks: toks}, 1)
	ast, err := p.ParseString("f", "")
	joined := texts[0]
	if minus {
		joined = "-" + joined
	}
	want, werr := strconv.ParseInt(joined, 0, 16)
	if werr == nil {
		vAssert(err == nil && int64(ast.V) == want, "C17: several tokens captured into a scalar must be joined and converted")
		vReach("converts")
	} else {
		vAssert(err != nil, "C17: joined text rejected by strconv but the parse succeeded")
		pe, ok := err.(Error)
		vAssert(ok && pe.Position() == toks[0].Pos, "C17: conversion error is not located at the first captured token")
		vReach("rejects")
	}
}

// several tokens captured into a scalar with an elided token lying between
// them: the captured (non-elided) tokens are joined, nothing else
func VH_C17_JoinElided() {
	t := vhNumTexts[vChoose("text", len(vhNumTexts))]
	pos := func(i int) lexer.Position { return lexer.Position{Filename: "f", Offset: i, Line: 1, Column: i + 1} }
	toks := []lexer.Token{{Type: vhTB, Value: "-", Pos: pos(0)}}
	between := vChoose("elidedBetween", 3)
	for i := 0; i < between; i++ {
		toks = append(toks, lexer.Token{Type: vhTWs, Value: " ", Pos: pos(len(toks))})
	}
	toks = append(toks, lexer.Token{Type: vhTA, Value: t, Pos: pos(len(toks))})
	toks = append(toks, lexer.EOFToken(pos(len(toks))))
	p := vhBuild[vnJoin](vhElideWs, &vhStreamDef{toks: toks}, 1)
	ast, err := p.ParseString("f", "")
	want, werr := strconv.ParseInt("-"+t, 0, 16)
	if werr == nil {
		vAssert(err == nil && int64(ast.V) == want, "C17: the captured tokens must be joined (elided tokens between them are not captured) and converted")
		vReach("converts")
	} else {
		vAssert(err != nil, "C17: joined text rejected by strconv but the parse succeeded")
		pe, ok := err.(Error)
		vAssert(ok && pe.Position() == toks[0].Pos, "C17: conversion error is not located at the first captured token")
		vReach("rejects")
	}
}

type vnJoinSignsU struct {
	V uint8 `@( "+"? "-"? A )`
}
type vnJoinSignsI struct {
	V *int8 `@( "+"? "-"? A )`
}

// several tokens, among them leading signs, captured into a scalar: the joined
// text is what strconv sees (ParseUint rejects any sign, ParseInt two signs)
func VH_C17_JoinSigns() {
	t := vhNumTexts[vChoose("text", len(vhNumTexts))]
	pos := func(i int) lexer.Position { return lexer.Position{Filename: "f", Offset: i, Line: 1, Column: i + 1} }
	var toks []lexer.Token
	joined := ""
	if vBool("plus") {
		toks = append(toks, lexer.Token{Type: vhTB, Value: "+", Pos: pos(len(toks))})
		joined += "+"
	}
	if vBool("minus") {
		toks = append(toks, lexer.Token{Type: vhTB, Value: "-", Pos: pos(len(toks))})
		joined += "-"
	}
	toks = append(toks, lexer.Token{Type: vhTA, Value: t, Pos: pos(len(toks))})
	joined += t
	toks = append(toks, lexer.EOFToken(pos(len(toks))))
	if vBool("unsigned") {
		p := vhBuild[vnJoinSignsU](vhNoElide, &vhStreamDef{toks: toks}, 1)
		ast, err := p.ParseString("f", "")
		want, werr := strconv.ParseUint(joined, 0, 8)
		if werr == nil {
			vAssert(err == nil && uint64(ast.V) == want, "C17: joined text accepted by ParseUint but the parse failed or stored another value")
			vReach("converts")
		} else {
			vAssert(err != nil, "C17: joined text rejected by ParseUint but the parse succeeded")
			pe, ok := err.(Error)
			vAssert(ok && pe.Position() == toks[0].Pos, "C17: conversion error is not located at the first captured token")
			vReach("rejects")
		}
		return
	}
	p := vhBuild[vnJoinSignsI](vhNoElide, &vhStreamDef{toks: toks}, 1)
	ast, err := p.ParseString("f", "")
	want, werr := strconv.ParseInt(joined, 0, 8)
	if werr == nil {
		vAssert(err == nil && ast.V != nil && int64(*ast.V) == want, "C17: joined text accepted by ParseInt but the parse failed or stored another value")
		vReach("converts")
	} else {
		vAssert(err != nil, "C17: joined text rejected by ParseInt but the parse succeeded")
		pe, ok := err.(Error)
		vAssert(ok && pe.Position() == toks[0].Pos, "C17: conversion error is not located at the first captured token")
		vReach("rejects")
	}
}

type vnPtrSlice struct {
	V []*int8 `@A+`
}

// each element captured into a slice of pointers to numbers
func VH_C17_PtrSlice() {
	toks, texts := vhNumStream(1+vChoose("n", 2), false)
	p := vhBuild[vnPtrSlice](vhNoElide, &vhStreamDef{toks: toks}, 1)
	ast, err := p.ParseString("f", "")
	allOK := true
	for _, t := range texts {
		if _, e := strconv.ParseInt(t, 0, 8); e != nil {
			allOK = false
		}
	}
	if allOK {
		vAssert(err == nil && len(ast.V) == len(texts), "C17: every element accepted by strconv but the parse failed or dropped elements")
		for i, t := range texts {
			w, _ := strconv.ParseInt(t, 0, 8)
			vAssert(ast.V[i] != nil && int64(*ast.V[i]) == w, "C17: slice element differs from strconv's result")
		}
		vReach("converts")
	} else {
		vAssert(err != nil, "C17: an element rejected by strconv but the parse succeeded")
		vReach("rejects")
	}
}

func VH_C17_Slice() {
	toks, texts := vhNumStream(1+vChoose("n", 2), false)
	p := vhBuild[vnSlice](vhNoElide, &vhStreamDef{toks: toks}, 1)
	ast, err := p.ParseString("f", "")
	allOK := true
	for _, t := range texts {
		if _, e := strconv.ParseInt(t, 0, 8); e != nil {
			allOK = false
		}
	}
	if allOK {
		vAssert(err == nil && len(ast.V) == len(texts), "C17: every element accepted by strconv but the parse failed")
		for i, t := range texts {
			w, _ := strconv.ParseInt(t, 0, 8)
			vAssert(int64(ast.V[i]) == w, "C17: slice element differs from strconv's result")
		}
		vReach("converts")
	} else {
		vAssert(err != nil, "C17: an element rejected by strconv but the parse succeeded")
		first := -1
		for i, t := range texts {
			if _, e := strconv.ParseInt(t, 0, 8); e != nil && first < 0 {
				first = i
			}
		}
		pe, ok := err.(Error)
		vAssert(ok && pe.Position() == toks[first].Pos, "C17: conversion error of a slice element is not a participle.Error located at the captured token")
		vReach("rejects")
	}
}

// one capture delivering several tokens to a numeric slice: each element is
// converted on its own
func VH_C17_SliceBatch() {
	toks, texts := vhNumStream(2+vChoose("n", 2), false)
	p := vhBuild[vnSliceBatch](vhNoElide, &vhStreamDef{toks: toks}, 1)
	ast, err := p.ParseString("f", "")
	allOK := true
	for _, t := range texts {
		if _, e := strconv.ParseInt(t, 0, 8); e != nil {
			allOK = false
		}
	}
	if allOK {
		vAssert(err == nil && len(ast.V) == len(texts), "C17: every element accepted by strconv but the parse failed")
		for i, t := range texts {
			w, _ := strconv.ParseInt(t, 0, 8)
			vAssert(int64(ast.V[i]) == w, "C17: slice element differs from strconv's result")
		}
		vReach("converts")
	} else {
		vAssert(err != nil, "C17: an element rejected by strconv but the parse succeeded")
		pe, ok := err.(Error)
		vAssert(ok && pe.Position() == toks[0].Pos, "C17: conversion error of a slice element is not a participle.Error located at the first captured token")
		vReach("rejects")
	}
}

func VH_C17_USlice() {
	toks, texts := vhNumStream(1+vChoose("n", 2), false)
	p := vhBuild[vnUSlice](vhNoElide, &vhStreamDef{toks: toks}, 1)
	ast, err := p.ParseString("f", "")
	allOK := true
	for _, t := range texts {
		if _, e := strconv.ParseUint(t, 0, 16); e != nil {
			allOK = false
		}
	}
	if allOK {
		vAssert(err == nil && len(ast.V) == len(texts), "C17: every element accepted by strconv but the parse failed")
		for i, t := range texts {
			w, _ := strconv.ParseUint(t, 0, 16)
			vAssert(uint64(ast.V[i]) == w, "C17: slice element differs from strconv's result")
		}
		vReach("converts")
	} else {
		vAssert(err != nil, "C17: an element rejected by strconv but the parse succeeded")
		first := -1
		for i, t := range texts {
			if _, e := strconv.ParseUint(t, 0, 16); e != nil && first < 0 {
				first = i
			}
		}
		pe, ok := err.(Error)
		vAssert(ok && pe.Position() == toks[first].Pos, "C17: conversion error of a slice element is not a participle.Error located at the captured token")
		vReach("rejects")
	}
}

func VH_C17_Float32() {
	toks, texts := vhNumStream(1, false)
	p := vhBuild[vnF32](vhNoElide, &vhStreamDef{toks: toks}, 1)
	ast, err := p.ParseString("f", "")
	want, werr := strconv.ParseFloat(texts[0], 32)
	if werr == nil {
		vAssert(err == nil, "C17: float accepted by strconv (bit size 32) but the parse failed")
		vAssert(ast.V == float32(want) || (want != want && ast.V != ast.V), "C17: float32 field differs from strconv's result")
		vReach("converts")
	} else {
		vAssert(err != nil, "C17: float rejected by strconv (bit size 32) but the parse succeeded")
		vReach("rejects")
	}
}

func VH_C17_Float64() {
	minus := vBool("minus")
	toks, texts := vhNumStream(1, minus)
	p := vhBuild[vnF64](vhNoElide, &vhStreamDef{toks: toks}, 1)
	ast, err := p.ParseString("f", "")
	joined := texts[0]
	if minus {
		joined = "-" + joined
	}
	want, werr := strconv.ParseFloat(joined, 64)
	if werr == nil {
		vAssert(err == nil, "C17: float accepted by strconv but the parse failed")
		vAssert(ast.V == want || (want != want && ast.V != ast.V), "C17: float64 field differs from strconv's result")
		vReach("converts")
	} else {
		vAssert(err != nil, "C17: float rejected by strconv but the parse succeeded")
		vReach("rejects")
	}
}

func VH_C17_Canary() {
	text := vNumText("num")
	_, ok := vParseOracle("ParseInt", text, 8)
	vAssert(!ok, "canary: must fail")
}
