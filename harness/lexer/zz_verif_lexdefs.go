package lexer

// Catalogue of lexer definitions shared by the runtime-lexer harnesses
// (C03, C04, C07, C09) and, re-qualified by the check script, by the
// generated-lexer harnesses (C05).  Keep every definition in the plain
// form  func vhDefX() Rules { return Rules{...} }.

// ---------------------------------------------------------------------
// Catalogue

func vhDefLiteral() Rules {
	return Rules{"Root": {{"A", `a`, nil}, {"AB", `ab`, nil}, {"B", `b`, nil}}}
}

func vhDefOverlap() Rules { // first match wins over longer match
	return Rules{"Root": {{"Kw", `if`, nil}, {"Ident", `[a-z]+`, nil}, {"ws", ` +`, nil}}}
}

func vhDefClasses() Rules {
	return Rules{"Root": {{"Num", `[0-9]+`, nil}, {"Word", `\w+`, nil}, {"ws", `\s+`, nil}, {"Other", `[^\s\w]`, nil}}}
}

func vhDefDot() Rules {
	return Rules{"Root": {{"NL", `\n`, nil}, {"AnyPair", `a.`, nil}, {"Any", `.`, nil}}}
}

func vhDefMultibyte() Rules {
	return Rules{"Root": {{"Greek", `[α-ω]+`, nil}, {"Ascii", `[a-z]`, nil}, {"ws", `\s`, nil}}}
}

func vhDefAnchors() Rules {
	return Rules{"Root": {{"WordA", `\ba\b`, nil}, {"StartB", `^b`, nil}, {"Char", `[a-c]`, nil}, {"Sp", ` `, nil}}}
}

func vhDefAlternation() Rules {
	return Rules{"Root": {{"Alt", `ab|a|(?:b|c)+`, nil}, {"D", `d?e`, nil}}}
}

func vhDefEmptyRule() Rules { // a rule that can match the empty string
	return Rules{"Root": {{"A", `a`, nil}, {"MaybeB", `b*`, nil}}}
}

func vhDefFold() Rules {
	return Rules{"Root": {{"Select", `(?i)se`, nil}, {"Ident", `[a-zA-Z]+`, nil}}}
}

func vhDefPushPop() Rules {
	return Rules{
		"Root": {{"Open", `\(`, Push("In")}, {"Ident", `[a-z]`, nil}},
		"In":   {{"Close", `\)`, Pop()}, {"Open", `\(`, Push("In")}, {"Num", `[0-9]`, nil}},
	}
}

// elided (lower-case) rules that carry actions
func vhDefElidedActions() Rules {
	return Rules{
		"Root": {{"open", `<`, Push("In")}, {"A", `a`, nil}, {"ws", ` `, nil}},
		"In":   {{"close", `>`, Pop()}, {"B", `b`, nil}, {"open", `<`, Push("In")}},
	}
}

// repetition of a body that can match the empty string inside a rule that cannot
func vhDefNullableStar() Rules {
	return Rules{"Root": {{"X", `(a?)*b`, nil}, {"Y", `(?:a*)+c`, nil}, {"Z", `(a|)+d`, nil}, {"A", `a`, nil}}}
}

// a state reached through two includes: its rules appear twice in Root
func vhDefIncludeDiamond() Rules {
	return Rules{
		"Root":   {Include("S"), Include("N"), {"Other", `o`, nil}},
		"S":      {{"Str", `s`, nil}, Include("Common")},
		"N":      {{"Num", `n`, nil}, Include("Common"), {"Str", `s`, nil}},
		"Common": {{"Ws", ` `, nil}, {"Id", `i`, Push("N")}},
	}
}

// a token that can span lines and hold multi-byte characters after the line break
func vhDefMultiLine() Rules {
	return Rules{"Root": {{"Text", `[^a]+`, nil}, {"A", `a`, nil}}}
}

// characters outside the basic multilingual plane (4 bytes in UTF-8, a
// surrogate pair in JSON's \uXXXX notation) in names, patterns and state names
func vhDefAstral() Rules {
	return Rules{
		"Root": {{"T😀", `a`, nil}, {"E", `😀|b`, Push("S𝕏")}, {"ws", ` `, nil}},
		"S𝕏":   {{"P", `[𝕏c]`, Pop()}},
	}
}

// rule and state names that are not identifiers and need quoting
func vhDefOddNames() Rules {
	return Rules{
		"Root":      {{"A-b", `a`, Push("S \"x\"\\")}, {"\"q\"", `q`, nil}, {"two words", `w`, nil}},
		"S \"x\"\\": {{"P.1", `b`, Pop()}, {"A-b", `a`, nil}},
	}
}

// rules whose whole pattern is a literal with multi-byte characters, next to a
// rule that accepts any single byte
func vhDefLiteralMB() Rules {
	return Rules{"Root": {{"Arrow", `→`, nil}, {"E", `é`, Push("In")}, {"Ch", `(?s).`, nil}},
		"In": {{"Arrow", `→`, Pop()}, {"Ch", `(?s).`, nil}}}
}

// patterns that bring their own ^ in front of a top-level alternation
func vhDefCaretAlt() Rules {
	return Rules{
		"Root": {{"K", `^a|b`, nil}, {"Open", `(<)`, Push("In")}, {"N", `1`, nil}},
		"In":   {{"End", `^\1>|;`, Pop()}, {"T", `[a1]`, nil}},
	}
}

// classes whose largest member lies in U+0080..U+00FF (two bytes in UTF-8, but "fits in a byte")
func vhDefLatin1Class() Rules {
	return Rules{"Root": {{"W", `[a-zà-ÿ]+`, nil}, {"D", `[÷0-9\x{80}]`, nil}, {"Any", `(?s).`, nil}}}
}

func vhDefString() Rules { // README-style interpolated string
	return Rules{
		"Root":   {{"String", `"`, Push("String")}, {"Ident", `[a-z]+`, nil}},
		"String": {{"Escaped", `\\.`, nil}, {"StringEnd", `"`, Pop()}, {"Char", `[^"\\]+`, nil}},
	}
}

func vhDefReturn() Rules {
	return Rules{
		"Root": {{"Hash", `#`, Push("Cmt")}, {"Ident", `[a-z]`, nil}},
		"Cmt":  {{"Bang", `!`, nil}, Return()},
	}
}

func vhDefIncludeFirst() Rules {
	return Rules{
		"Root":   {Include("Common"), {"Ident", `[a-z]+`, nil}},
		"Common": {{"Kw", `if`, nil}, {"ws", ` `, nil}},
	}
}

func vhDefIncludeMiddle() Rules {
	return Rules{
		"Root":   {{"X", `x`, nil}, Include("Common"), {"Any", `[a-z]`, nil}},
		"Common": {{"XY", `xy`, nil}, {"A", `a`, nil}},
	}
}

func vhDefIncludeNested() Rules {
	return Rules{
		"Root": {{"Open", `\[`, Push("In")}, Include("L1")},
		"In":   {{"Close", `\]`, Pop()}, Include("L1")},
		"L1":   {{"A", `a`, nil}, Include("L2")},
		"L2":   {{"B", `b`, nil}, {"ws", `\s`, nil}},
	}
}

func vhDefPopInRoot() Rules { // Pop reachable from the initial state
	return Rules{"Root": {{"Close", `\)`, Pop()}, {"Ident", `[a-z]`, nil}}}
}

func vhDefReturnInRoot() Rules {
	return Rules{"Root": {{"Ident", `[a-z]`, nil}, Return()}}
}

func vhDefOptionalGroupPush() Rules { // push rule with a non-participating group
	return Rules{
		"Root": {{"H", `(a)(b)?`, Push("S")}, {"C", `c`, nil}},
		"S":    {{"X", `x`, Pop()}, {"C", `c`, nil}},
	}
}

// back-reference to a group that comes after a group which took no part in
// the entering match (group numbers must keep their positions)
func vhDefBackrefOptGroup() Rules {
	return Rules{
		"Root": {{"Open", `(x)?([ab])`, Push("H")}, {"C", `c`, nil}},
		"H":    {{"End", `\2`, Pop()}, {"Any", `[abx]`, nil}},
	}
}

// rule names that start with a non-ASCII character: lower-case letters (é, п),
// an upper-case letter (É) and a letter without case (词); whether a rule is
// elided is decided on the first character of its name
func vhDefNonASCIINames() Rules {
	return Rules{"Root": {{"étiquette", `a`, nil}, {"词", `b`, nil}, {"Éa", `c`, nil}, {"пробел", `d`, nil}, {"Z", `e`, nil}}}
}

// literal U+FFFD: regexp reads an invalid input byte as U+FFFD (width 1), so
// these literals match invalid bytes as well as the encoded character
func vhDefReplacementLit() Rules {
	return Rules{"Root": {{"Two", `a\x{FFFD}`, nil}, {"Repl", `\x{FFFD}`, nil}, {"Other", `(?s).`, nil}}}
}

// a back-reference next to an escaped backslash followed by a digit (\\2 is
// the two characters backslash and 2, not a reference to group 2)
func vhDefBackrefEscaped() Rules {
	return Rules{
		"Root": {{"Open", `(a)`, Push("H")}, {"Two", `2`, nil}},
		"H":    {{"End", `\1\\2`, Pop()}, {"Any", `[a2\\]`, nil}},
	}
}

// no rule name starts with a lower-case letter, but the names start with
// characters whose first UTF-8 byte, read as Latin-1, is one (0xE0 and above)
func vhDefCaselessNames() Rules {
	return Rules{"Root": {{"数字", `[0-9]`, nil}, {"Ａlpha", `[a-z]`, Push("In")}, {"→", ` `, nil}},
		"In": {{"Ω", `;`, Pop()}, {"数字", `[0-9]`, nil}}}
}

// case-insensitive ASCII literals with characters that are not letters (their
// neighbours 0x20 away are other punctuation, not another case)
func vhDefFoldPunct() Rules {
	return Rules{"Root": {{"At", `(?i)@a`, nil}, {"Us", `(?i)a_`, nil}, {"Br", `(?i)[b]-`, nil}, {"Sp", `(?i)c c`, nil}, {"Other", `(?s).`, nil}}}
}

// a state without rules (entering it ends lexing unless the input ends there)
func vhDefEmptyState() Rules {
	return Rules{
		"Root":  {{"A", `a`, Push("Empty")}, {"B", `b`, nil}},
		"Empty": {},
	}
}

func vhDefBackref() Rules { // heredoc-style back-reference
	return Rules{
		"Root": {{"Start", `<([a-c])`, Push("H")}, {"Ident", `[a-c]`, nil}},
		"H":    {{"End", `\1>`, Pop()}, {"Body", `[a-c]`, nil}},
	}
}

func vhDefBackrefMissing() Rules {
	return Rules{
		"Root": {{"Start", `<(a)`, Push("H")}},
		"H":    {{"End", `\2`, Pop()}, {"Body", `[a-c]`, nil}},
	}
}

func vhDefBackrefQuoted() Rules { // the captured group may contain regexp metacharacters
	return Rules{
		"Root": {{"Start", `<(.)`, Push("H")}},
		"H":    {{"End", `\1`, Pop()}, {"Body", `[a-c.+]`, nil}},
	}
}

// --- definitions aimed at the generator's operators (also lexed by the runtime checks)

func vhDefRepeat() Rules {
	return Rules{"Root": {{"R", `a{2,3}b?`, nil}, {"A", `a`, nil}, {"B", `b`, nil}}}
}

func vhDefEmptyAlt() Rules {
	return Rules{"Root": {{"X", `x(?:|b)c`, nil}, {"Any", `[a-z]`, nil}}}
}

func vhDefNoWordBoundary() Rules {
	return Rules{"Root": {{"AB", `a\Bb`, nil}, {"A", `a\b`, nil}, {"Ch", `[ab ]`, nil}}}
}

func vhDefEndAnchors() Rules {
	return Rules{"Root": {{"AEnd", `a$`, nil}, {"BEnd", `b\z`, nil}, {"Ch", `[abc\n]`, nil}}}
}

func vhDefFoldClass() Rules {
	return Rules{"Root": {{"F", `(?i)[a-c]x`, nil}, {"Ch", `[a-zA-Z]`, nil}}}
}

func vhDefDotAll() Rules {
	return Rules{"Root": {{"P", `(?s)a.`, nil}, {"Ch", `(?s).`, nil}}}
}

func vhDefNonASCIILit() Rules {
	return Rules{"Root": {{"E", `é+`, nil}, {"Ch", `[a-z]`, nil}}}
}

func vhDefNegClass() Rules {
	return Rules{"Root": {{"N", `[^a-c\n]+`, nil}, {"Ch", `[a-c]`, nil}}}
}

func vhDefPossessive() Rules { // backtracking and possessive matching of P differ on "aab"
	return Rules{"Root": {{"P", `a*ab`, nil}, {"A", `a`, nil}, {"B", `b`, nil}}}
}

func vhDefReturnNested() Rules { // two Return() rules can fire within one Next
	return Rules{
		"Root": {{"A", `a`, Push("S1")}, {"B", `b`, nil}},
		"S1":   {{"C", `c`, Push("S2")}, Return()},
		"S2":   {{"D", `d`, nil}, Return()},
	}
}

func vhDefReturnSelf() Rules { // Return() reachable in Root, Root pushed onto itself
	return Rules{"Root": {{"A", `a`, Push("Root")}, Return()}}
}
