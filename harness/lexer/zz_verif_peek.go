package lexer

// C12 — PeekingLexer cursors stay consistent under any sequence of
// operations.  Base case + one inductive step per operation from an
// arbitrary state that satisfies the representation invariant.

const vhMaxTokens = 4 // @tier quick=4 thorough=5

// the elision set of a path: one of these pairs, chosen in vhTokens (types next
// to EOF, types far from it -- the 63rd and later symbols of a lexer --, and
// positive types as hand-written definitions use them, and a set that names
// EOF itself, which is never elided).  The specification
// below speaks of this set, not of the implementation's representation of it.
var vhElidePairs = [][2]TokenType{{-2, -3}, {-64, 9}, {-70, 64}, {EOF, -2}}

var vhElideA, vhElideB TokenType = -2, -3

func vhIsElidedType(t TokenType) bool { return t == vhElideA || t == vhElideB }

type vhSliceLexer struct {
	toks []Token
	i    int
}

func (l *vhSliceLexer) Next() (Token, error) {
	t := l.toks[l.i]
	if l.i < len(l.toks)-1 {
		l.i++
	}
	return t, nil
}

// vhTokens returns n tokens of arbitrary non-EOF type followed by EOF.  The
// position of token i is unique (Offset == i) so that token identity is
// index identity.
func vhTokens() []Token {
	pair := vhElidePairs[vChoose("elision", len(vhElidePairs))]
	vhElideA, vhElideB = pair[0], pair[1]
	n := vChoose("ntokens", vhMaxTokens+1)
	toks := make([]Token, 0, n+1)
	for i := 0; i < n; i++ {
		ty := TokenType(vInt("type"))
		vAssume(ty != EOF)
		toks = append(toks, Token{Type: ty, Value: "x", Pos: Position{Filename: "f", Offset: i, Line: 1, Column: i + 1}})
	}
	toks = append(toks, EOFToken(Position{Filename: "f", Offset: n, Line: 1, Column: n + 1}))
	return toks
}

func vhElided(p *PeekingLexer, i int) bool {
	t := p.tokens[i]
	return !t.EOF() && vhIsElidedType(t.Type)
}

// vhNx is the specification of "first non-elided token at or after r".
func vhNx(p *PeekingLexer, r int) int {
	j := r
	for vhElided(p, j) {
		j++
	}
	return j
}

// vhCount is the number of non-elided tokens in [0, r).
func vhCount(p *PeekingLexer, r int) int {
	c := 0
	for i := 0; i < r; i++ {
		if !vhElided(p, i) {
			c++
		}
	}
	return c
}

// vhInv is the representation invariant of a PeekingLexer.
func vhInv(p *PeekingLexer) bool {
	n := len(p.tokens) - 1
	if n < 0 || !p.tokens[n].EOF() {
		return false
	}
	raw, next := int(p.rawCursor), int(p.nextCursor)
	if raw < 0 || raw > next || next > n {
		return false
	}
	if vhNx(p, raw) != next {
		return false
	}
	return p.cursor == vhCount(p, raw)
}

// vhArbitrary builds an arbitrary PeekingLexer state satisfying the
// invariant: the elision map is built by the real Upgrade, the cursors are
// symbolic.
func vhArbitrary() *PeekingLexer {
	toks := vhTokens()
	p, err := Upgrade(&vhSliceLexer{toks: toks}, vhElideA, vhElideB)
	vAssert(err == nil, "Upgrade failed")
	p.rawCursor = RawCursor(vInt("raw"))
	p.nextCursor = RawCursor(vInt("next"))
	p.cursor = vInt("cursor")
	vAssume(vhInv(p))
	return p
}

func vhSameTokens(p *PeekingLexer, before []Token) bool {
	if len(p.tokens) != len(before) {
		return false
	}
	for i := range before {
		if p.tokens[i] != before[i] {
			return false
		}
	}
	return true
}

// VH_C12_Base: after Upgrade on any stream the invariant holds at raw = 0.
func VH_C12_Base() {
	toks := vhTokens()
	p, err := Upgrade(&vhSliceLexer{toks: toks}, vhElideA, vhElideB)
	vAssert(err == nil, "Upgrade failed")
	vAssert(len(p.tokens) == len(toks), "Upgrade collects every token up to and including EOF")
	vAssert(p.rawCursor == 0, "raw cursor starts at 0")
	vAssert(p.cursor == 0, "cursor starts at 0")
	vAssert(vhInv(p), "invariant after Upgrade")
	vReach("base")
}

func VH_C12_Peek() {
	p := vhArbitrary()
	before := p.Checkpoint
	snapshot := append([]Token(nil), p.tokens...)
	t := p.Peek()
	vAssert(t == &p.tokens[vhNx(p, int(before.rawCursor))], "Peek returns the first non-elided token at or after the raw cursor")
	vAssert(p.Checkpoint == before, "Peek does not move")
	vAssert(vhSameTokens(p, snapshot), "tokens unchanged")
	vReach("peek")
}

func VH_C12_RawPeek() {
	p := vhArbitrary()
	before := p.Checkpoint
	t := p.RawPeek()
	vAssert(t == &p.tokens[before.rawCursor], "RawPeek returns the token at the raw cursor")
	vAssert(p.Checkpoint == before, "RawPeek does not move")
	vReach("rawpeek")
}

func VH_C12_Next() {
	p := vhArbitrary()
	before := p.Checkpoint
	snapshot := append([]Token(nil), p.tokens...)
	want := vhNx(p, int(before.rawCursor))
	t := p.Next()
	vAssert(t == &p.tokens[want], "Next returns the first non-elided token at or after the raw cursor")
	if p.tokens[want].EOF() {
		vAssert(p.Checkpoint == before, "Next at EOF is a no-op")
		vReach("next-eof")
	} else {
		vAssert(int(p.rawCursor) == want+1, "Next moves just past the returned token")
		vAssert(p.cursor == before.cursor+1, "Cursor counts the consumed non-elided token")
		vReach("next-advance")
	}
	vAssert(p.Cursor() == vhCount(p, int(p.rawCursor)), "Cursor == number of non-elided tokens consumed")
	vAssert(vhInv(p), "invariant after Next")
	vAssert(vhSameTokens(p, snapshot), "tokens unchanged")
}

// vhMatcher is an arbitrary predicate on tokens: one symbolic bit per index.
func vhMatcher(n int) func(Token) bool {
	bits := make([]bool, n)
	for i := range bits {
		bits[i] = vBool("match")
	}
	return func(t Token) bool { return bits[t.Pos.Offset] }
}

func vhSpecPeekAny(p *PeekingLexer, raw int, match func(Token) bool) int {
	i := raw
	for {
		t := p.tokens[i]
		if t.EOF() || match(t) || !vhIsElidedType(t.Type) {
			return i
		}
		i++
	}
}

func VH_C12_PeekAny() {
	p := vhArbitrary()
	before := p.Checkpoint
	match := vhMatcher(len(p.tokens))
	t, c := p.PeekAny(match)
	// specification, stated independently: first index from raw that is EOF,
	// matches, or is non-elided
	want := int(before.rawCursor)
	for !(p.tokens[want].EOF() || match(p.tokens[want]) || !vhElided(p, want)) {
		want++
	}
	vAssert(int(c) == want, "PeekAny returns the first token that is EOF, matches, or is non-elided")
	vAssert(t == p.tokens[want], "PeekAny returns that token's value")
	vAssert(p.Checkpoint == before, "PeekAny does not move")
	vReach("peekany")
}

func VH_C12_FastForward() {
	p := vhArbitrary()
	before := p.Checkpoint
	match := vhMatcher(len(p.tokens))
	_, c := p.PeekAny(match)
	p.FastForward(c)
	n := len(p.tokens) - 1
	if int(c) == n {
		// the returned token is EOF: everything before it is consumed
		vAssert(int(p.rawCursor) == n, "FastForward to EOF stops at EOF")
		vReach("ff-eof")
	} else {
		vAssert(int(p.rawCursor) == int(c)+1, "FastForward consumes through the returned token")
		vReach("ff-token")
	}
	vAssert(p.Cursor() == vhCount(p, int(p.rawCursor)), "Cursor == number of non-elided tokens consumed")
	vAssert(p.Cursor() >= before.cursor, "Cursor never decreases")
	vAssert(vhInv(p), "invariant after FastForward")
}

// FastForward to an arbitrary cursor value never reads outside the stream.
func VH_C12_FastForwardAny() {
	p := vhArbitrary()
	c := vInt("target")
	p.FastForward(RawCursor(c))
	vAssert(vhInv(p) || c < int(p.rawCursor), "invariant after FastForward(any) when moving forwards")
	vReach("ff-any")
}

func VH_C12_Range() {
	p := vhArbitrary()
	n := len(p.tokens)
	a, b := vInt("a"), vInt("b")
	vAssume(0 <= a && a <= b && b <= n)
	r := p.Range(RawCursor(a), RawCursor(b))
	vAssert(len(r) == b-a, "Range length")
	for i := range r {
		vAssert(r[i] == p.tokens[a+i], "Range content")
	}
	vReach("range")
}

// Checkpoint: restoring a checkpoint makes every later observation identical.
func VH_C12_Checkpoint() {
	p := vhArbitrary()
	cp := p.MakeCheckpoint()
	vAssert(cp == p.Checkpoint, "MakeCheckpoint returns the cursors")
	match := vhMatcher(len(p.tokens))
	obs := func() (int, int, RawCursor, int, RawCursor) {
		pk := p.Peek().Pos.Offset
		rp := p.RawPeek().Pos.Offset
		_, any := p.PeekAny(match)
		return pk, rp, any, p.Cursor(), p.RawCursor()
	}
	a1, a2, a3, a4, a5 := obs()
	// move somewhere else with one or two operations
	switch vChoose("op1", 3) {
	case 0:
		p.Next()
	case 1:
		_, c := p.PeekAny(match)
		p.FastForward(c)
	case 2:
		p.Next()
		p.Next()
	}
	p.LoadCheckpoint(cp)
	vAssert(p.Checkpoint == cp, "LoadCheckpoint restores the cursors")
	b1, b2, b3, b4, b5 := obs()
	vAssert(a1 == b1 && a2 == b2 && a3 == b3 && a4 == b4 && a5 == b5, "observations after restore equal observations at save")
	vAssert(vhInv(p), "invariant after restore")
	vReach("checkpoint")
}

// VH_C12_Canary must be reported as violated (vacuity guard for the family).
func VH_C12_Canary() {
	p := vhArbitrary()
	p.Next()
	vAssert(p.Cursor() == 0, "canary: must fail")
}
