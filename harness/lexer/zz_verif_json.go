package lexer

// C16 — lexer definitions survive JSON serialisation.
//
// The real encoding/json (encoder, decoder, scanner, string escaping) is
// executed from SSA over the executor's reflect model, together with the
// repository's Rule.MarshalJSON / Rule.UnmarshalJSON /
// StatefulDefinition.MarshalJSON; lexing with the original and with the
// round-tripped definition is compared on symbolic input bytes, and rule
// fields are round-tripped with symbolic pattern and name bytes.

import "encoding/json"

func vhC16Same(def, def2 *StatefulDefinition, in string) {
	s1, s2 := def.Symbols(), def2.Symbols()
	vAssert(len(s1) == len(s2), "C16: symbol tables differ in size")
	for k, v := range s1 {
		v2, ok := s2[k]
		vAssert(ok && v == v2, "C16: symbol tables differ")
	}
	t1, e1 := vhLexAll(def, in)
	t2, e2 := vhLexAll(def2, in)
	vhSameLex(t1, e1, t2, e2, "C16: round-tripped definition lexes differently")
}

type vhC16Pair struct{ def, back *StatefulDefinition }

// vhC16RoundTrip: marshal the definition (or the rule set), build a lexer
// from the unmarshalled rules.  The definitions are concrete, so the round trip
// is computed once per (definition, variant) and shared by all paths (vMemo).
func vhC16RoundTrip(key string, rules Rules, marshalRules bool) vhC16Pair {
	if marshalRules {
		key += ":rules"
	}
	return vMemo("c16:"+key, func() interface{} {
		def, err := New(rules)
		vAssert(err == nil, "catalogue definition must be accepted by New")
		var data []byte
		var merr error
		if marshalRules {
			data, merr = json.Marshal(rules)
		} else {
			data, merr = json.Marshal(def)
		}
		vAssert(merr == nil, "C16: json.Marshal failed")
		var back Rules
		uerr := json.Unmarshal(data, &back)
		vAssert(uerr == nil, "C16: the marshalled definition does not unmarshal")
		def2, nerr := New(back)
		vAssert(nerr == nil, "C16: the unmarshalled rules are rejected by New")
		return vhC16Pair{def, def2}
	}).(vhC16Pair)
}

func vhC16Rules(key string, rules Rules, in string) {
	p := vhC16RoundTrip(key, rules, vBool("marshalRules"))
	vhC16Same(p.def, p.back, in)
	vReach("round-trip")
}

func VH_C16_Literal()         { vhC16Rules("Literal", vhDefLiteral(), vhInput()) }
func VH_C16_PushPop()         { vhC16Rules("PushPop", vhDefPushPop(), vhInput()) }
func VH_C16_String()          { vhC16Rules("String", vhDefString(), vhInput()) }
func VH_C16_Return()          { vhC16Rules("Return", vhDefReturn(), vhInput()) }
func VH_C16_ReturnNested()    { vhC16Rules("ReturnNested", vhDefReturnNested(), vhInput()) }
func VH_C16_IncludeFirst()    { vhC16Rules("IncludeFirst", vhDefIncludeFirst(), vhInput()) }
func VH_C16_IncludeMiddle()   { vhC16Rules("IncludeMiddle", vhDefIncludeMiddle(), vhInput()) }
func VH_C16_IncludeNested()   { vhC16Rules("IncludeNested", vhDefIncludeNested(), vhInput()) }
func VH_C16_IncludeDiamond()  { vhC16Rules("IncludeDiamond", vhDefIncludeDiamond(), vhInput()) }
func VH_C16_Astral()          { vhC16Rules("Astral", vhDefAstral(), vhInput()) }
func VH_C16_EmptyState()      { vhC16Rules("EmptyState", vhDefEmptyState(), vhInput()) }
func VH_C16_OddNames()        { vhC16Rules("OddNames", vhDefOddNames(), vhInput()) }
func VH_C16_NonASCIINames()   { vhC16Rules("NonASCIINames", vhDefNonASCIINames(), vhInput()) }
func VH_C16_BackrefOptGroup() { vhC16Rules("BackrefOptGroup", vhDefBackrefOptGroup(), vhInputASCII()) }
func VH_C16_ElidedActions()   { vhC16Rules("ElidedActions", vhDefElidedActions(), vhInput()) }
func VH_C16_Backref()         { vhC16Rules("Backref", vhDefBackref(), vhInputASCII()) }
func VH_C16_BackrefQuoted()   { vhC16Rules("BackrefQuoted", vhDefBackrefQuoted(), vhInputASCII()) }
func VH_C16_Multibyte()       { vhC16Rules("Multibyte", vhDefMultibyte(), vhInput()) }
func VH_C16_NonASCIILit()     { vhC16Rules("NonASCIILit", vhDefNonASCIILit(), vhInput()) }
func VH_C16_Classes()         { vhC16Rules("Classes", vhDefClasses(), vhInput()) }

const vhC16Generated = 40 // @tier quick=40 thorough=400

func VH_C16_Generated() {
	idx := vChoose("definition", vhC16Generated)
	rules := vhGenRules(idx, false)
	// captured text is spliced into patterns by back-references: ASCII only
	vhC16Rules("G"+string(rune('0'+idx/100))+string(rune('0'+idx/10%10))+string(rune('0'+idx%10)), rules, vhInputASCII())
}

// VH_C16_RuleFields: one rule whose pattern (or name, or target state) is a
// symbolic text — ASCII: quotes, backslashes, control characters, <, >, & and
// everything else encoding/json escapes, or one two-byte UTF-8 character — with
// each kind of action survives Marshal + Unmarshal field by field.  The other
// two fields carry fixed texts that need escaping.
const vhJSONFree = 1 // @tier quick=1 thorough=1

// class representatives for the bytes after the free ones
var vhJSONAlphabet = []byte{'"', '\\', '<', '\n', 'a', 0x7f, '&', 0x00, '/', 'u'}

func vhC16Text(tag string) string {
	n := vChoose(tag+"len", vhJSONFree+2)
	s := vString(tag, n)
	if n == 2 && vBool(tag+"twobyte") {
		vAssume(vAnd(vInRange(s[0], 0xC2, 0xDF), vInRange(s[1], 0x80, 0xBF)))
		return s
	}
	for i := 0; i < n; i++ {
		if i < vhJSONFree {
			vAssume(s[i] < 0x80)
			continue
		}
		ok := false
		for _, c := range vhJSONAlphabet {
			ok = vOr(ok, s[i] == c)
		}
		vAssume(ok)
	}
	return s
}

func VH_C16_RuleFields() {
	name, pattern, state := "N<a>", `p"\\&`, "S\tq"
	field := vChoose("field", 3)
	action := 0
	switch field {
	case 0:
		name = vhC16Text("name")
	case 1:
		pattern = vhC16Text("pattern")
		action = vChoose("action", 4)
	default:
		state = vhC16Text("state")
		action = 1 + 2*vChoose("action", 2)
	}
	r := Rule{Name: name, Pattern: pattern}
	switch action {
	case 1:
		r.Action = Push(state)
	case 2:
		r.Action = Pop()
	case 3:
		r = Include(state)
	}
	data, err := json.Marshal(&r)
	vAssert(err == nil, "C16: json.Marshal of a rule failed")
	var back Rule
	vAssert(json.Unmarshal(data, &back) == nil, "C16: a marshalled rule does not unmarshal")
	vAssert(back.Name == r.Name, "C16: rule name changed in the round trip")
	vAssert(back.Pattern == r.Pattern, "C16: rule pattern changed in the round trip")
	vAssert(back.Action == r.Action, "C16: rule action changed in the round trip")
	vReach("round-trip")
}

func VH_C16_Canary() {
	in := vhInput()
	vAssert(len(in) < 2, "canary: must fail")
}
