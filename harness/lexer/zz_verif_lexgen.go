package lexer

// Generated family of lexer definitions: a deterministic pseudo-random
// generator of rule maps (3 states, 1-4 rules per state, Push/Pop/Return/
// Include, elided rules with and without actions).  Index i always yields the
// same definition, so a violation is identified by (index, input).
//
// supported=true restricts the patterns to the generator's documented class
// (no back-references, no non-greedy operators, no rule that can match the
// empty string); the C05/C07 generator pipeline uses that subset.

type vhRng struct{ s uint64 }

func (r *vhRng) n(k int) int {
	r.s = r.s*6364136223846793005 + 1442695040888963407
	return int((r.s >> 33) % uint64(k))
}

var vhGenPatsSupported = []string{
	`a`, `b`, `ab`, `a+`, `[ab]`, `<`, `>`, `a?b`, `(a)(b)?`, `(a)|b`, `.`, ` +`, `b*a`, `(a|ab)c`, `[^a]`,
	`a{2}`, `(?i)a`, `\bb`, `(a?)*b`, `c$`, `^<`, `[a-c]+`, `(<)(a)?`, `é`, `b|ba`,
}

var vhGenPatsOther = []string{`\1`, `a\1`, `\2`, `x?`, `\\1`, `\0`}

const vhGenLexSeed = 20260926

// vhGenRules returns generated definition number idx.
func vhGenRules(idx int, supported bool) Rules {
	r := &vhRng{s: uint64(vhGenLexSeed) + uint64(idx)*2654435761}
	if supported {
		r.s ^= 0x5555
	}
	r.n(2)
	states := []string{"Root", "S1", "S2"}
	rules := Rules{}
	for si, st := range states {
		n := 1 + r.n(4)
		for i := 0; i < n; i++ {
			c := r.n(20)
			switch {
			case c == 0 && si < 2: // include a later state only (no cycles)
				rules[st] = append(rules[st], Include(states[si+1+r.n(len(states)-si-1)]))
			case c == 1 && i == n-1 && si > 0:
				rules[st] = append(rules[st], Return())
			default:
				pats := vhGenPatsSupported
				if !supported && r.n(4) == 0 {
					pats = vhGenPatsOther
				}
				pi := r.n(len(pats))
				var act Action
				switch r.n(6) {
				case 0, 1:
					act = Push(states[r.n(len(states))])
				case 2:
					act = Pop()
				}
				name := "T"
				if r.n(4) == 0 {
					name = "t" // elided
				}
				if !supported && len(pats) == len(vhGenPatsOther) {
					name += "o"
				}
				name += string(rune('a' + pi))
				dup := false
				for _, have := range rules[st] {
					if have.Name == name {
						dup = true
					}
				}
				if dup {
					continue
				}
				rules[st] = append(rules[st], Rule{name, pats[pi], act})
			}
		}
		if len(rules[st]) == 0 {
			rules[st] = append(rules[st], Rule{"Ta", `a`, nil})
		}
	}
	return rules
}
