package lexer

// C03 / C04 / C07 (runtime lexer): harnesses over a catalogue of lexer
// definitions with symbolic input bytes.  regexp matching of symbolic input
// is delegated by the engine to its reference matcher; everything else in
// StatefulLexer.Next is the real code.

import (
	"regexp"
	"strings"
	"unicode"
	"unicode/utf8"
)

const vhMaxInput = 3 // @tier quick=3 thorough=4

// a single Next on an input of <= 4 bytes takes a few thousand interpreter
// steps; far beyond this bound it is not terminating
const vhNextSteps = 400000

// ---------------------------------------------------------------------
// Reference lexer, written from the statement of C03.

type vhTok struct {
	name   string
	value  string
	offset int
}

type vhRefState struct {
	name   string
	groups []string
}

// vhExpand returns the ordered rule list of a state with included states
// spliced in place (recursively), computed from the user-provided rules.
func vhExpand(rules Rules, state string, depth int) []Rule {
	var out []Rule
	if depth > 8 {
		return out
	}
	for _, r := range rules[state] {
		if inc, ok := r.Action.(include); ok {
			out = append(out, vhExpand(rules, inc.State, depth+1)...)
			continue
		}
		out = append(out, r)
	}
	return out
}

// vhBackrefPattern substitutes \N by the quoted N-th group.  ok=false if the
// pattern names a group the entering rule did not capture.
func vhBackrefPattern(pattern string, groups []string) (string, bool, bool) {
	var sb strings.Builder
	has := false
	for i := 0; i < len(pattern); {
		if pattern[i] != '\\' {
			sb.WriteByte(pattern[i])
			i++
			continue
		}
		j := i
		for j < len(pattern) && pattern[j] == '\\' {
			j++
		}
		n := j - i
		if j < len(pattern) && pattern[j] >= '0' && pattern[j] <= '9' && n%2 == 1 {
			has = true
			g := int(pattern[j] - '0')
			if len(groups) == 0 || g >= len(groups) {
				return "", true, false
			}
			sb.WriteString(pattern[i : j-1])
			sb.WriteString(regexp.QuoteMeta(groups[g]))
			i = j + 1
			continue
		}
		sb.WriteString(pattern[i:j])
		i = j
	}
	return sb.String(), has, true
}

// "rules whose names start with a lower-case letter": the first character
// of the name, not its first byte
func vhIsLower(name string) bool {
	if len(name) == 0 {
		return false
	}
	r, _ := utf8.DecodeRuneInString(name)
	return unicode.IsLower(r)
}

// vhRefLex lexes in with the reference semantics.  errOff is -1 when lexing
// succeeds, else the offset at which it stops with an error.
func vhRefLex(rules Rules, in string) (toks []vhTok, errOff int) {
	stack := []vhRefState{{name: "Root"}}
	off := 0
next:
	for off < len(in) {
		st := stack[len(stack)-1]
		var (
			sel   *Rule
			match []int
		)
		rs := vhExpand(rules, st.name, 0)
		for i := range rs {
			r := rs[i]
			if r.Name == ReturnRule.Name && r.Pattern == "" && r.Action == nil {
				// Return: hand the same offset back to the parent state
				if len(stack) <= 1 {
					return toks, off
				}
				stack = stack[:len(stack)-1]
				continue next
			}
			pat, _, ok := vhBackrefPattern(r.Pattern, st.groups)
			if !ok {
				return toks, off
			}
			re, err := regexp.Compile("^(?:" + pat + ")")
			if err != nil {
				return toks, off
			}
			if m := re.FindStringSubmatchIndex(in[off:]); m != nil {
				sel, match = &rs[i], m
				break
			}
		}
		if sel == nil {
			return toks, off
		}
		if match[1] == 0 {
			return toks, off // matched the empty string
		}
		switch a := sel.Action.(type) {
		case ActionPush:
			groups := make([]string, 0, len(match)/2)
			for i := 0; i < len(match); i += 2 {
				if match[i] < 0 {
					groups = append(groups, "")
				} else {
					groups = append(groups, in[off+match[i]:off+match[i+1]])
				}
			}
			stack = append(stack, vhRefState{name: a.State, groups: groups})
		case ActionPop:
			if len(stack) <= 1 {
				return toks, off
			}
			stack = stack[:len(stack)-1]
		}
		if !vhIsLower(sel.Name) {
			toks = append(toks, vhTok{name: sel.Name, value: in[off : off+match[1]], offset: off})
		}
		off += match[1]
	}
	return toks, -1
}

// ---------------------------------------------------------------------
// Harness bodies

func vhInput() string {
	n := vChoose("len", vhMaxInput+1)
	return vString("in", n)
}

// vhInputASCII: as vhInput, every byte < 0x80 (used where captured text is
// spliced into a pattern: the symbolic pattern compiler is ASCII-only).
func vhInputASCII() string {
	in := vhInput()
	for i := 0; i < len(in); i++ {
		vAssume(in[i] < 0x80)
	}
	return in
}

// vhRunImpl lexes in with the real runtime lexer.
func vhRunImpl(rules Rules, in string) (def *StatefulDefinition, toks []Token, err error) {
	def, derr := New(rules)
	vAssert(derr == nil, "catalogue definition must be accepted by New")
	lex, lerr := def.LexString("f", in)
	vAssert(lerr == nil, "LexString failed")
	toks, err = ConsumeAll(lex)
	return def, toks, err
}

func vhC03(rules Rules) { vhC03In(rules, vhInput()) }

func vhC03In(rules Rules, in string) {
	def, toks, err := vhRunImpl(rules, in)
	want, errOff := vhRefLex(rules, in)
	names := SymbolsByRune(def)
	if errOff >= 0 {
		vReach("error")
		vAssert(err != nil, "C03: the rules define an error here but lexing succeeded")
		le, ok := err.(*Error)
		vAssert(ok, "C03: lexing error is not a *lexer.Error")
		vAssert(le.Pos.Offset == errOff, "C03: lexing error reported at the wrong offset")
		return
	}
	vAssert(err == nil, "C03: lexing failed although the rules define a token stream")
	vAssert(len(toks) == len(want)+1, "C03: number of tokens differs from the rules' token stream")
	for i, w := range want {
		vAssert(names[toks[i].Type] == w.name, "C03: token comes from the wrong rule")
		vAssert(toks[i].Value == w.value, "C03: token text differs")
		vAssert(toks[i].Pos.Offset == w.offset, "C03: token offset differs")
	}
	vAssert(toks[len(toks)-1].EOF(), "C03: stream does not end with EOF")
	if len(want) > 0 {
		vReach("tokens")
	}
}

// vhSpecPos is the position of byte offset off in input in (C04).
func vhSpecPos(in string, off int) (line, col int) {
	line = 1 + strings.Count(in[:off], "\n")
	last := strings.LastIndex(in[:off], "\n")
	col = 1 + utf8.RuneCountInString(in[last+1:off])
	return
}

func vhHasLower(rules Rules) bool {
	for _, rs := range rules {
		for _, r := range rs {
			if vhIsLower(r.Name) {
				return true
			}
		}
	}
	return false
}

func vhC04(rules Rules) { vhC04In(rules, vhInput()) }

func vhC04In(rules Rules, in string) {
	_, toks, err := vhRunImpl(rules, in)
	vhC04Toks(rules, in, toks, err)
}

func vhC04Toks(rules Rules, in string, toks []Token, err error) {
	if err != nil {
		vReach("error")
		return
	}
	vReach("ok")
	end := 0
	for i, t := range toks {
		off := t.Pos.Offset
		vAssert(off >= end, "C04: tokens overlap or go backwards")
		vAssert(off+len(t.Value) <= len(in), "C04: token extends beyond the input")
		vAssert(in[off:off+len(t.Value)] == t.Value, "C04: token value is not the input at its offset")
		if !vhHasLower(rules) {
			vAssert(off == end, "C04: gap between tokens although no rule is elided")
		}
		line, col := vhSpecPos(in, off)
		vAssert(t.Pos.Line == line, "C04: wrong line")
		vAssert(t.Pos.Column == col, "C04: wrong column")
		vAssert(t.Pos.Filename == "f", "C04: wrong filename")
		if i < len(toks)-1 {
			vAssert(!t.EOF(), "C04: EOF before the end")
			vAssert(len(t.Value) > 0, "C04: empty token")
		}
		end = off + len(t.Value)
	}
	last := toks[len(toks)-1]
	vAssert(last.EOF(), "C04: last token is not EOF")
	vAssert(last.Pos.Offset == len(in), "C04: EOF is not positioned at the end of the input")
}

// vhC04Entry: the same obligations through every way of handing the input to
// a definition (LexString, Lex from a reader), chosen by the solver,
// on inputs that may start with a byte-order mark.
func vhC04Entry(rules Rules) {
	bom := []string{"", "\xef\xbb\xbf", "\xef\xbb", "\xfe\xff"}
	in := bom[vChoose("prefix", len(bom))] + vString("in", vChoose("len", vhMaxInput))
	def, derr := New(rules)
	vAssert(derr == nil, "catalogue definition must be accepted by New")
	var lex Lexer
	var lerr error
	switch vChoose("entry", 2) {
	case 0:
		lex, lerr = def.LexString("f", in)
	default:
		lex, lerr = def.Lex("f", strings.NewReader(in))
	}
	vAssert(lerr == nil, "C04: the definition refuses the input")
	toks, err := ConsumeAll(lex)
	vhC04Toks(rules, in, toks, err)
}

// vhC07Run: whole-run obligations from the initial state.
func vhC07Run(rules Rules) { vhC07RunIn(rules, vhInput()) }

// a long unlexable remainder followed by arbitrary bytes (the error message
// quotes a bounded sample of the remaining input)
func VH_C07_Run_LongError() {
	prefix := "?????????????????"[:13+vChoose("prefix", 5)]
	vhC07RunIn(vhDefLiteral(), prefix+vhInput())
}

func VH_C07_Run_Generated() {
	rules, in, ok := vhGenPick()
	if !ok {
		vReach("rejected")
		return
	}
	vhC07RunIn(rules, in)
}

func vhC07RunIn(rules Rules, in string) {
	def, derr := New(rules)
	vAssert(derr == nil, "catalogue definition must be accepted by New")
	lex, _ := def.LexString("f", in)
	calls := 0
	for {
		vStepLimit(vhNextSteps, "C07: Next did not terminate within the step bound")
		t, err := lex.Next()
		vStepLimit(0, "")
		calls++
		vAssert(calls <= len(in)+1, "C07: more Next calls than input bytes + 1")
		if err != nil {
			vReach("error")
			// a further call after an error must not panic
			vStepLimit(vhNextSteps, "C07: Next after an error did not terminate within the step bound")
			lex.Next()
			vStepLimit(0, "")
			return
		}
		if t.EOF() {
			t2, err2 := lex.Next()
			vAssert(err2 == nil && t2.EOF() && t2.Pos == t.Pos, "C07: Next after EOF is not EOF at the same position")
			t3, err3 := lex.Next()
			vAssert(err3 == nil && t3.EOF() && t3.Pos == t.Pos, "C07: second Next after EOF is not EOF at the same position")
			vReach("eof")
			return
		}
		vAssert(len(t.Value) > 0, "C07: empty non-EOF token")
	}
}

// vhC07Step: one Next from an arbitrary lexer state (stack of any depth <= 2
// over the definition's states, arbitrary groups, arbitrary remaining input).
func vhC07Step(rules Rules, pushable []string, withGroups bool) {
	def, derr := New(rules)
	vAssert(derr == nil, "catalogue definition must be accepted by New")
	in := vhInput()
	depth := 1
	if len(pushable) > 0 {
		depth += vChoose("depth", 1+len(pushable))
	}
	stack := make([]lexerState, 0, depth)
	for i := 0; i < depth; i++ {
		st := lexerState{name: "Root"} // the bottom of every reachable stack
		if i > 0 {
			st.name = pushable[vChoose("state", len(pushable))]
		}
		if withGroups {
			// groups as a Push rule records them; ASCII (the symbolic
			// pattern compiler's bound)
			ng := vChoose("ngroups", 3)
			for g := 0; g < ng; g++ {
				gs := vString("group", vChoose("glen", 2))
				for k := 0; k < len(gs); k++ {
					vAssume(gs[k] < 0x80)
				}
				st.groups = append(st.groups, gs)
			}
		}
		stack = append(stack, st)
	}
	l := &StatefulLexer{def: def, data: in, stack: stack, pos: Position{Filename: "f", Line: 1, Column: 1}}
	before := len(l.data)
	vStepLimit(vhNextSteps, "C07: Next did not terminate within the step bound")
	t, err := l.Next()
	vStepLimit(0, "")
	vAssert(len(l.stack) >= 1, "C07: state stack empty after Next")
	for _, st := range l.stack {
		_, ok := def.rules[st.name]
		vAssert(ok, "C07: stack names an unknown state")
	}
	if err == nil && !t.EOF() {
		vAssert(len(l.data) < before, "C07: Next returned a token without consuming input")
		vReach("token")
	}
}

// ---------------------------------------------------------------------
// Harness entry points (one per catalogue definition)

func VH_C03_Literal()        { vhC03(vhDefLiteral()) }
func VH_C03_Overlap()        { vhC03(vhDefOverlap()) }
func VH_C03_Classes()        { vhC03(vhDefClasses()) }
func VH_C03_Dot()            { vhC03(vhDefDot()) }
func VH_C03_Multibyte()      { vhC03(vhDefMultibyte()) }
func VH_C03_Anchors()        { vhC03(vhDefAnchors()) }
func VH_C03_Alternation()    { vhC03(vhDefAlternation()) }
func VH_C03_EmptyRule()      { vhC03(vhDefEmptyRule()) }
func VH_C03_Fold()           { vhC03(vhDefFold()) }
func VH_C03_PushPop()        { vhC03(vhDefPushPop()) }
func VH_C03_String()         { vhC03(vhDefString()) }
func VH_C03_Return()         { vhC03(vhDefReturn()) }
func VH_C03_IncludeFirst()   { vhC03(vhDefIncludeFirst()) }
func VH_C03_IncludeMiddle()  { vhC03(vhDefIncludeMiddle()) }
func VH_C03_IncludeNested()  { vhC03(vhDefIncludeNested()) }
func VH_C03_PopInRoot()      { vhC03(vhDefPopInRoot()) }
func VH_C03_ReturnInRoot()   { vhC03(vhDefReturnInRoot()) }
func VH_C03_OptGroupPush()   { vhC03(vhDefOptionalGroupPush()) }
func VH_C03_Backref()        { vhC03(vhDefBackref()) }
func VH_C03_BackrefMissing() { vhC03(vhDefBackrefMissing()) }
func VH_C03_BackrefQuoted()  { vhC03In(vhDefBackrefQuoted(), vhInputASCII()) }

func VH_C03_Repeat()         { vhC03(vhDefRepeat()) }
func VH_C03_EmptyAlt()       { vhC03(vhDefEmptyAlt()) }
func VH_C03_NoWordBoundary() { vhC03(vhDefNoWordBoundary()) }
func VH_C03_EndAnchors()     { vhC03(vhDefEndAnchors()) }
func VH_C03_FoldClass()      { vhC03(vhDefFoldClass()) }
func VH_C03_DotAll()         { vhC03(vhDefDotAll()) }
func VH_C03_NonASCIILit()    { vhC03(vhDefNonASCIILit()) }
func VH_C03_NegClass()       { vhC03(vhDefNegClass()) }
func VH_C03_Possessive()     { vhC03(vhDefPossessive()) }

func VH_C03_ReturnNested() { vhC03(vhDefReturnNested()) }
func VH_C03_ReturnSelf()   { vhC03(vhDefReturnSelf()) }

func VH_C03_ElidedActions() { vhC03(vhDefElidedActions()) }

func VH_C03_NullableStar() { vhC03(vhDefNullableStar()) }

// a state entered twice in one input by parent matches that differ only in
// their whole text: \0 must follow the entering match each time
func vhDefFence() Rules {
	return Rules{
		"Root": {{"Fence", `<+`, Push("F")}, {"Other", `a`, nil}},
		"F":    {{"End", `\0`, Pop()}, {"Any", `[<a]`, nil}},
	}
}

const vhFenceInput = 7 // @tier quick=7 thorough=9

func VH_C03_BackrefZero() {
	n := vChoose("len", vhFenceInput+1)
	in := vString("in", n)
	for i := 0; i < n; i++ {
		vAssume(vOr(in[i] == '<', in[i] == 'a'))
	}
	vhC03In(vhDefFence(), in)
}

func VH_C03_BackrefEscaped() {
	n := vChoose("len", 5)
	in := vString("in", n)
	for i := 0; i < n; i++ {
		vAssume(vOr(vOr(in[i] == 'a', in[i] == '2'), in[i] == '\\'))
	}
	vhC03In(vhDefBackrefEscaped(), in)
}

// generated definitions (zz_verif_lexgen.go)
const vhGenLexDefs = 100 // @tier quick=100 thorough=400

func vhGenPick() (Rules, string, bool) {
	idx := vChoose("definition", vhGenLexDefs)
	rules := vhGenRules(idx, false)
	if _, err := New(rules); err != nil {
		return nil, "", false
	}
	other := false
	for _, rs := range rules {
		for _, r := range rs {
			if len(r.Name) > 2 && r.Name[1] == 'o' {
				other = true
			}
		}
	}
	if other {
		// captured text is spliced into patterns: ASCII only
		return rules, vhInputASCII(), true
	}
	return rules, vhInput(), true
}

func VH_C03_Generated() {
	rules, in, ok := vhGenPick()
	if !ok {
		vReach("rejected")
		return
	}
	vhC03In(rules, in)
}

func VH_C03_IncludeDiamond() { vhC03(vhDefIncludeDiamond()) }

func VH_C03_MultiLine() { vhC03(vhDefMultiLine()) }

func VH_C03_Astral() { vhC03(vhDefAstral()) }

func VH_C03_OddNames() { vhC03(vhDefOddNames()) }

func VH_C03_LiteralMB() { vhC03(vhDefLiteralMB()) }

func VH_C03_CaretAlt() { vhC03In(vhDefCaretAlt(), vhInputASCII()) }

func VH_C03_Latin1Class() { vhC03(vhDefLatin1Class()) }

func VH_C03_BackrefOptGroup() { vhC03In(vhDefBackrefOptGroup(), vhInputASCII()) }

func VH_C03_ReplacementLit() { vhC03(vhDefReplacementLit()) }

func VH_C03_NonASCIINames() { vhC03In(vhDefNonASCIINames(), vhInputASCII()) }

// VH_C04_TextScanner: the default (text/scanner based) lexer on bytes from an
// alphabet of letters, digits, quotes, comments, blanks and line breaks: when
// lexing succeeds, values are the input at their offsets, offsets increase,
// EOF sits at the end, and line / column are those of the offset.
func VH_C04_TextScanner() {
	alphabet := []byte{'a', '1', ' ', '\n', '"', '/', '*', '.', '+', '\''}
	n := vChoose("len", vhMaxInput+1)
	in := vString("in", n)
	for i := 0; i < n; i++ {
		ok := false
		for _, c := range alphabet {
			ok = vOr(ok, in[i] == c)
		}
		vAssume(ok)
	}
	lex, lerr := TextScannerLexer.Lex("f", strings.NewReader(in))
	vAssert(lerr == nil, "C04: the text/scanner definition refuses the input")
	toks, err := ConsumeAll(lex)
	if err != nil {
		vReach("error")
		return
	}
	vReach("ok")
	end := 0
	for i, t := range toks {
		off := t.Pos.Offset
		vAssert(off >= end, "C04: tokens overlap or go backwards")
		vAssert(off+len(t.Value) <= len(in), "C04: token extends beyond the input")
		vAssert(in[off:off+len(t.Value)] == t.Value, "C04: token value is not the input at its offset")
		line, col := vhSpecPos(in, off)
		vAssert(t.Pos.Line == line && t.Pos.Column == col, "C04: wrong line or column")
		vAssert(t.Pos.Filename == "f", "C04: wrong filename")
		if i < len(toks)-1 {
			vAssert(!t.EOF() && len(t.Value) > 0, "C04: EOF or an empty token before the end")
		}
		end = off + len(t.Value)
	}
	last := toks[len(toks)-1]
	vAssert(last.EOF(), "C04: last token is not EOF")
	vAssert(last.Pos.Offset == len(in), "C04: EOF is not positioned at the end of the input")
}

func VH_C03_EmptyState() { vhC03(vhDefEmptyState()) }

func VH_C04_CaselessNames() { vhC04In(vhDefCaselessNames(), vhInputASCII()) }

func VH_C03_CaselessNames() { vhC03In(vhDefCaselessNames(), vhInputASCII()) }

func VH_C03_FoldPunct() { vhC03In(vhDefFoldPunct(), vhInputASCII()) }

func VH_C04_NonASCIINames() { vhC04In(vhDefNonASCIINames(), vhInputASCII()) }

func VH_C04_Entry_DotAll() { vhC04Entry(vhDefDotAll()) }

func VH_C04_Entry_LiteralMB() { vhC04Entry(vhDefLiteralMB()) }

func VH_C03_Canary() {
	in := vhInput()
	_, toks, err := vhRunImpl(vhDefLiteral(), in)
	vAssert(err != nil || len(toks) < 3, "canary: must fail")
}

func VH_C04_Literal()       { vhC04(vhDefLiteral()) }
func VH_C04_Overlap()       { vhC04(vhDefOverlap()) }
func VH_C04_Classes()       { vhC04(vhDefClasses()) }
func VH_C04_Dot()           { vhC04(vhDefDot()) }
func VH_C04_Multibyte()     { vhC04(vhDefMultibyte()) }
func VH_C04_Anchors()       { vhC04(vhDefAnchors()) }
func VH_C04_PushPop()       { vhC04(vhDefPushPop()) }
func VH_C04_String()        { vhC04(vhDefString()) }
func VH_C04_IncludeNested() { vhC04(vhDefIncludeNested()) }
func VH_C04_MultiLine()     { vhC04(vhDefMultiLine()) }
func VH_C04_LiteralMB()     { vhC04(vhDefLiteralMB()) }
func VH_C04_DotAll()        { vhC04(vhDefDotAll()) }
func VH_C04_NegClass()      { vhC04(vhDefNegClass()) }
func VH_C04_ElidedActions() { vhC04(vhDefElidedActions()) }

func VH_C04_Generated() {
	rules, in, ok := vhGenPick()
	if !ok {
		vReach("rejected")
		return
	}
	vhC04In(rules, in)
}

// VH_C04_Advance: Position.Advance alone, for an arbitrary start position
// and an arbitrary span: offset, line and column follow the specification.
func VH_C04_Advance() {
	p := Position{Filename: "f", Offset: vInt("off"), Line: vInt("line"), Column: vInt("col")}
	before := p
	span := vString("span", vChoose("len", vhMaxInput+2))
	p.Advance(span)
	vAssert(p.Offset == before.Offset+len(span), "C04: Advance offset")
	nl := strings.Count(span, "\n")
	vAssert(p.Line == before.Line+nl, "C04: Advance line")
	if nl == 0 {
		vAssert(p.Column == before.Column+utf8.RuneCountInString(span), "C04: Advance column (no newline)")
		vReach("same-line")
	} else {
		last := strings.LastIndex(span, "\n")
		vAssert(p.Column == 1+utf8.RuneCountInString(span[last+1:]), "C04: Advance column (after newline)")
		vReach("new-line")
	}
	vAssert(p.Filename == "f", "C04: Advance filename")
}

func VH_C04_Canary() {
	p := Position{Filename: "f", Offset: 0, Line: 1, Column: 1}
	span := vString("span", 2)
	p.Advance(span)
	vAssert(p.Column == 3, "canary: must fail")
}

func VH_C07_Run_ElidedActions()  { vhC07Run(vhDefElidedActions()) }
func VH_C07_Run_IncludeDiamond() { vhC07Run(vhDefIncludeDiamond()) }
func VH_C07_Run_Literal()        { vhC07Run(vhDefLiteral()) }
func VH_C07_Run_EmptyRule()      { vhC07Run(vhDefEmptyRule()) }
func VH_C07_Run_PushPop()        { vhC07Run(vhDefPushPop()) }
func VH_C07_Run_String()         { vhC07Run(vhDefString()) }
func VH_C07_Run_Return()         { vhC07Run(vhDefReturn()) }
func VH_C07_Run_IncludeNested()  { vhC07Run(vhDefIncludeNested()) }
func VH_C07_Run_PopInRoot()      { vhC07Run(vhDefPopInRoot()) }
func VH_C07_Run_ReturnInRoot()   { vhC07Run(vhDefReturnInRoot()) }
func VH_C07_Run_OptGroupPush()   { vhC07Run(vhDefOptionalGroupPush()) }
func VH_C07_Run_Backref()        { vhC07Run(vhDefBackref()) }
func VH_C07_Run_BackrefMissing() { vhC07Run(vhDefBackrefMissing()) }
func VH_C07_Run_Anchors()        { vhC07Run(vhDefAnchors()) }

func VH_C07_Step_PushPop()      { vhC07Step(vhDefPushPop(), []string{"In"}, false) }
func VH_C07_Step_String()       { vhC07Step(vhDefString(), []string{"String"}, false) }
func VH_C07_Step_Return()       { vhC07Step(vhDefReturn(), []string{"Cmt"}, false) }
func VH_C07_Step_PopInRoot()    { vhC07Step(vhDefPopInRoot(), nil, false) }
func VH_C07_Step_ReturnInRoot() { vhC07Step(vhDefReturnInRoot(), nil, false) }
func VH_C07_Step_ReturnNested() { vhC07Step(vhDefReturnNested(), []string{"S1", "S2"}, false) }
func VH_C07_Step_Backref()      { vhC07Step(vhDefBackref(), []string{"H"}, true) }

func VH_C07_Canary() {
	in := vhInput()
	def, _ := New(vhDefLiteral())
	lex, _ := def.LexString("f", in)
	_, err := lex.Next()
	vAssert(err != nil, "canary: must fail")
}
