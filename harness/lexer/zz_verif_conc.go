package lexer

// C09 (lexer side) — a lexer Definition is safe for concurrent and repeated
// use: frame condition (nothing reachable from the definition is written by
// LexString/Next) and history independence, including the one shared mutable
// structure, the back-reference cache.

func vhLexAll(def *StatefulDefinition, in string) ([]Token, int) {
	lex, _ := def.LexString("f", in)
	toks, err := ConsumeAll(lex)
	if err != nil {
		if le, ok := err.(*Error); ok {
			return nil, le.Pos.Offset
		}
		return nil, -2
	}
	return toks, -1
}

func vhSameLex(t1 []Token, e1 int, t2 []Token, e2 int, tag string) {
	vAssert(e1 == e2, tag+": error-ness or error position differs")
	vAssert(len(t1) == len(t2), tag+": token count differs")
	for i := range t1 {
		vAssert(t1[i] == t2[i], tag+": token differs")
	}
}

func vhC09Frame(rules Rules, ascii bool) {
	def, err := New(rules)
	vAssert(err == nil, "catalogue definition must be accepted by New")
	vFreeze(def)
	in := vhInput()
	if ascii {
		for i := 0; i < len(in); i++ {
			vAssume(in[i] < 0x80)
		}
	}
	t1, e1 := vhLexAll(def, in)
	t2, e2 := vhLexAll(def, in)
	vhSameLex(t1, e1, t2, e2, "C09: repeated lexing with one definition")
	if e1 == -1 {
		vReach("lexed")
	} else {
		vReach("error")
	}
}

// vhAlphabet3 constrains every byte of s to one of three values.
func vhAlphabet3(s string, a, b, c byte) {
	for i := 0; i < len(s); i++ {
		vAssume(vOr(vOr(s[i] == a, s[i] == b), s[i] == c))
	}
}

// vhC09History: lexing in2 gives the same result on a definition that has
// lexed in1 before and on a fresh definition (the back-reference cache is
// transparent).
func vhC09History(rules Rules, n1, n2 int, a, b, c byte) {
	used, err := New(rules)
	vAssert(err == nil, "catalogue definition must be accepted by New")
	fresh, _ := New(rules)
	in1 := vString("first", vChoose("len1", n1+1))
	in2 := vString("second", vChoose("len2", n2+1))
	vhAlphabet3(in1, a, b, c)
	vhAlphabet3(in2, a, b, c)
	vhLexAll(used, in1)
	t1, e1 := vhLexAll(used, in2)
	t2, e2 := vhLexAll(fresh, in2)
	vhSameLex(t1, e1, t2, e2, "C09: result depends on what the definition lexed before")
	vReach("compared")
}

func vhDefBackrefCollide() Rules {
	return Rules{
		"Root": {{"One", `(a)\x00a`, Push("H")}, {"Two", `((a))`, Push("H")}, {"Nul", `\x00`, nil}},
		"H":    {{"End", `\2`, Pop()}, {"Any", `[ab]`, nil}},
	}
}

// \0 refers to the whole parent match: a run of a's is closed by a run of
// the same length.
func vhDefBackrefZero() Rules {
	return Rules{
		"Root": {{"Fence", `a+`, Push("F")}, {"Other", `b`, nil}},
		"F":    {{"End", `\0`, Pop()}, {"Any", `[ab]`, nil}},
	}
}

// vhC09Interleave: two lexers of ONE definition are advanced in an order
// chosen by the solver (one symbolic bit per step: which lexer calls Next),
// over two symbolic inputs; each lexer must deliver exactly the stream a
// fresh definition delivers for its input when used alone.  The schedule is a
// symbolic variable, so the verdict covers every interleaving of the Next
// calls within the bound (Next is the unit of interleaving; what happens
// inside one Next is covered by the frame condition).
func vhLexStep(l Lexer, toks *[]Token, errAt *int, done *bool) {
	t, err := l.Next()
	if err != nil {
		*done = true
		if le, ok := err.(*Error); ok {
			*errAt = le.Pos.Offset
		} else {
			*errAt = -2
		}
		*toks = nil
		return
	}
	*toks = append(*toks, t)
	if t.EOF() {
		*done = true
	}
}

func vhLexAllNamed(def *StatefulDefinition, file, in string) ([]Token, int) {
	lex, _ := def.LexString(file, in)
	toks, err := ConsumeAll(lex)
	if err != nil {
		if le, ok := err.(*Error); ok {
			return nil, le.Pos.Offset
		}
		return nil, -2
	}
	return toks, -1
}

func vhC09Interleave(rules Rules, n1, n2 int, a, b, c byte) {
	n := n1
	if n2 > n {
		n = n2
	}
	def, err := New(rules)
	vAssert(err == nil, "catalogue definition must be accepted by New")
	vFreeze(def)
	in1 := vString("first", vChoose("len1", n1+1))
	in2 := vString("second", vChoose("len2", n2+1))
	if a != 0 {
		vhAlphabet3(in1, a, b, c)
		vhAlphabet3(in2, a, b, c)
	}
	l1, _ := def.LexString("f", in1)
	l2, _ := def.LexString("g", in2)
	var t1, t2 []Token
	e1, e2 := -1, -1
	d1, d2 := false, false
	switched := 0
	last := 0
	for steps := 0; !(d1 && d2); steps++ {
		vAssert(steps <= 2*(n+2), "C09: interleaved lexers do not finish")
		first := !d1 && (d2 || vBool("sched"))
		if first {
			vhLexStep(l1, &t1, &e1, &d1)
			if last == 2 {
				switched++
			}
			last = 1
		} else {
			vhLexStep(l2, &t2, &e2, &d2)
			if last == 1 {
				switched++
			}
			last = 2
		}
	}
	fresh1, _ := New(rules)
	r1, x1 := vhLexAllNamed(fresh1, "f", in1)
	fresh2, _ := New(rules)
	r2, x2 := vhLexAllNamed(fresh2, "g", in2)
	vhSameLex(t1, e1, r1, x1, "C09: interleaved lexer 1 differs from a fresh definition used alone")
	vhSameLex(t2, e2, r2, x2, "C09: interleaved lexer 2 differs from a fresh definition used alone")
	if switched >= 2 {
		vReach("interleaved")
	}
}

func VH_C09_Interleave_PushPop() { vhC09Interleave(vhDefPushPop(), 2, 2, 0, 0, 0) }
func VH_C09_Interleave_Return()  { vhC09Interleave(vhDefReturn(), 2, 2, 0, 0, 0) }
func VH_C09_Interleave_Backref() { vhC09Interleave(vhDefBackref(), 4, 3, '<', 'a', '>') }
func VH_C09_Interleave_Zero()    { vhC09Interleave(vhDefBackrefZero(), 3, 3, 'a', 'b', 'b') }

func VH_C09_Frame_Literal()       { vhC09Frame(vhDefLiteral(), false) }
func VH_C09_Frame_PushPop()       { vhC09Frame(vhDefPushPop(), false) }
func VH_C09_Frame_Return()        { vhC09Frame(vhDefReturn(), false) }
func VH_C09_Frame_IncludeNested() { vhC09Frame(vhDefIncludeNested(), false) }
func VH_C09_Frame_Backref()       { vhC09Frame(vhDefBackref(), true) }

func VH_C09_History_Backref() { vhC09History(vhDefBackref(), 3, 3, '<', 'a', '>') }
func VH_C09_History_Collide() { vhC09History(vhDefBackrefCollide(), 2, 4, 'a', 0, 'b') }

func VH_C09_History_Zero() { vhC09History(vhDefBackrefZero(), 2, 4, 'a', 'b', 'b') }

func VH_C09_Canary() {
	def, _ := New(vhDefLiteral())
	vFreeze(def)
	def.matchLongest = true
	vAssert(!vSymbolic(), "canary: must fail")
}
