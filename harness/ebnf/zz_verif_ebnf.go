package ebnf

// C14 — Parser.String() is valid, complete EBNF that survives a round trip.
//
// (a) printer/parser round trip on symbolic syntax trees: Negation,
//     Lookahead and Repetition are symbolic, the tree is printed by the real
//     String methods and parsed back by the real ebnf parser (text/scanner is
//     executed from SSA on the printed text);
// (b) whole grammars: real Build, real Parser.String(), parsed by the real
//     ebnf parser: root first, every production defined once, every reference
//     defined, second round trip equal.
// Also C09 for the package-level parser: it is frozen and used repeatedly.

import (
	"reflect"
	"strconv"

	"github.com/alecthomas/participle/v2"
	"github.com/alecthomas/participle/v2/lexer"
)

var vhReps = []string{"", "*", "+", "?", "!"}

// literal texts as Parser.String() prints them (%q): plain, ending in an
// escaped backslash, holding an escaped quote, control and non-ASCII bytes
var vhLiterals = []string{`"lit"`, `"\\"`, `"\""`, `"a\\"`, `"\n"`, `"\\\""`, `"é"`, `"\x00"`, `"|"`}

// vhLeaf is a term without a group; simple leaves have no modifier.
func vhLeaf(simple bool) *Term {
	t := &Term{Negation: vBool("negation")}
	if !simple {
		t.Repetition = vhReps[vChoose("repetition", len(vhReps))]
	}
	switch vChoose("kind", 3) {
	case 0:
		t.Name = "Prod"
	case 1:
		t.Literal = `"lit"`
	default:
		t.Token = "tok"
	}
	return t
}

// vhTerm: a leaf, or (depth > 0) a group with any lookahead marker around a
// one-term expression.
func vhTerm(depth int) *Term {
	if depth == 0 || vChoose("group", 2) == 0 {
		return vhLeaf(false)
	}
	t := &Term{Negation: vBool("negation"), Repetition: vhReps[vChoose("repetition", len(vhReps))]}
	la := []LookaheadAssertion{LookaheadAssertionNone, LookaheadAssertionNegative, LookaheadAssertionPositive}[vChoose("lookahead", 3)]
	inner := &Expression{Alternatives: []*Sequence{{Terms: []*Term{vhTerm(depth - 1)}}}}
	t.Group = &SubExpression{Lookahead: la, Expr: inner}
	return t
}

// vhExpr: one term; or two terms in sequence; or two alternatives (the
// second element is a simple leaf to keep the space finite and small).
func vhExpr(depth int) *Expression {
	first := vhTerm(depth)
	switch vChoose("shape", 3) {
	case 0:
		return &Expression{Alternatives: []*Sequence{{Terms: []*Term{first}}}}
	case 1:
		return &Expression{Alternatives: []*Sequence{{Terms: []*Term{first, vhLeaf(true)}}}}
	}
	return &Expression{Alternatives: []*Sequence{{Terms: []*Term{first}}, {Terms: []*Term{vhLeaf(true)}}}}
}

func vhSameTerm(a, b *Term) {
	vAssert(a.Negation == b.Negation, "C14: ~ is lost or invented by the round trip")
	vAssert(a.Repetition == b.Repetition, "C14: a modifier is lost or altered by the round trip")
	vAssert(a.Name == b.Name && a.Literal == b.Literal && a.Token == b.Token, "C14: a reference, literal or token is altered by the round trip")
	vAssert((a.Group == nil) == (b.Group == nil), "C14: a group is lost or invented by the round trip")
	if a.Group != nil {
		vAssert(a.Group.Lookahead == b.Group.Lookahead, "C14: a lookahead operator is lost or altered by the round trip")
		vhSameExpr(a.Group.Expr, b.Group.Expr)
	}
}

func vhSameExpr(a, b *Expression) {
	vAssert(len(a.Alternatives) == len(b.Alternatives), "C14: number of alternatives changes in the round trip")
	for i := range a.Alternatives {
		vAssert(len(a.Alternatives[i].Terms) == len(b.Alternatives[i].Terms), "C14: number of terms changes in the round trip")
		for j := range a.Alternatives[i].Terms {
			vhSameTerm(a.Alternatives[i].Terms[j], b.Alternatives[i].Terms[j])
		}
	}
}

const vhTreeDepth = 1 // @tier quick=1 thorough=2

func VH_C14_TreeRoundTrip() {
	e := vhExpr(vhTreeDepth)
	tree := &EBNF{Productions: []*Production{{Production: "Root", Expression: e}}}
	text := tree.String()
	back, err := ParseString(text)
	vAssert(err == nil, "C14: printed EBNF does not parse")
	vAssert(len(back.Productions) == 1 && back.Productions[0].Production == "Root", "C14: production lost")
	vhSameExpr(e, back.Productions[0].Expression)
	vReach("round-trip")
}

// VH_C14_Literals: two or three literal terms (sequence or alternatives) with
// texts that need escaping, printed and parsed back.
func VH_C14_Literals() {
	lit := func() *Term {
		return &Term{Negation: vBool("negation"), Literal: vhLiterals[vChoose("literal", len(vhLiterals))]}
	}
	a, b, c := lit(), lit(), lit()
	var e *Expression
	switch vChoose("shape", 3) {
	case 0:
		e = &Expression{Alternatives: []*Sequence{{Terms: []*Term{a, b}}}}
	case 1:
		e = &Expression{Alternatives: []*Sequence{{Terms: []*Term{a}}, {Terms: []*Term{b}}}}
	default:
		e = &Expression{Alternatives: []*Sequence{{Terms: []*Term{a, b}}, {Terms: []*Term{c}}}}
	}
	tree := &EBNF{Productions: []*Production{{Production: "Root", Expression: e}}}
	back, err := ParseString(tree.String())
	vAssert(err == nil, "C14: printed EBNF with escaped literals does not parse")
	vAssert(len(back.Productions) == 1 && back.Productions[0].Production == "Root", "C14: production lost")
	vhSameExpr(e, back.Productions[0].Expression)
	vReach("round-trip")
}

// ---------- whole grammars ----------

var vhLexDef = lexer.MustSimple([]lexer.SimpleRule{{Name: "A", Pattern: "a"}, {Name: "B", Pattern: "b"}, {Name: "C", Pattern: "c"}, {Name: "ws", Pattern: " "}})

type vgInner struct {
	X string `@A`
	Y string `@B?`
}

type vgAll struct {
	Neg  []string   `( @~"x" )*`
	LA   string     `( (?= A B ) @A | (?! "x" ) @C )`
	Sub  *vgInner   `@@?`
	Subs []*vgInner `( "," @@ )*`
	Opt  string     `[ @"!" ]`
	Rep  []string   `{ @B }`
	NE   string     `( @A? @B? )!`
	Rec  *vgAll     `( "(" @@ ")" )?`
	Tl   string     `@"t":A+`
	Esc  string     `( @"\\" | @"a\\" "\"" | @"\n" )?`
}

type vgUnionIface interface{ isU() }
type vgUA struct {
	V string `@A`
}
type vgUB struct {
	V string `@B "\"" "\\"`
}

func (vgUA) isU() {}
func (vgUB) isU() {}

type vgWithUnion struct {
	Vals []vgUnionIface `@@+`
	Tail *vgInner       `@@?`
}

func vhDefinedOnce(e *EBNF) {
	for i, p := range e.Productions {
		for j, q := range e.Productions {
			vAssert(i == j || p.Production != q.Production, "C14: a production is defined more than once")
		}
	}
}

func vhRefsDefined(e *EBNF, x *Expression) {
	for _, s := range x.Alternatives {
		for _, t := range s.Terms {
			if t.Name != "" {
				found := false
				for _, p := range e.Productions {
					if p.Production == t.Name {
						found = true
					}
				}
				vAssert(found, "C14: a referenced production is not defined")
			}
			if t.Group != nil {
				vhRefsDefined(e, t.Group.Expr)
			}
		}
	}
}

func vhCountOps(x *Expression, neg, pos, negLA, star, plus, quest, bang *int) {
	for _, s := range x.Alternatives {
		for _, t := range s.Terms {
			if t.Negation {
				*neg++
			}
			switch t.Repetition {
			case "*":
				*star++
			case "+":
				*plus++
			case "?":
				*quest++
			case "!":
				*bang++
			}
			if t.Group != nil {
				switch t.Group.Lookahead {
				case LookaheadAssertionPositive:
					*pos++
				case LookaheadAssertionNegative:
					*negLA++
				}
				vhCountOps(t.Group.Expr, neg, pos, negLA, star, plus, quest, bang)
			}
		}
	}
}

func vhGrammarRoundTrip(text string, rootName string) *EBNF {
	ast, err := ParseString(text)
	vAssert(err == nil, "C14: Parser.String() is not accepted by the ebnf package")
	vAssert(len(ast.Productions) > 0 && (rootName == "" || ast.Productions[0].Production == rootName), "C14: the root production does not come first")
	vhDefinedOnce(ast)
	for _, p := range ast.Productions {
		vhRefsDefined(ast, p.Expression)
	}
	again, err2 := ParseString(ast.String())
	vAssert(err2 == nil, "C14: printed syntax tree does not parse")
	vAssert(len(again.Productions) == len(ast.Productions), "C14: number of productions changes in the round trip")
	for i := range ast.Productions {
		vAssert(ast.Productions[i].Production == again.Productions[i].Production, "C14: production name changes in the round trip")
		vhSameExpr(ast.Productions[i].Expression, again.Productions[i].Expression)
	}
	return ast
}

func VH_C14_Grammar_All() {
	p, err := participle.Build[vgAll](participle.Lexer(vhLexDef))
	vAssert(err == nil, "catalogue grammar must build")
	ast := vhGrammarRoundTrip(p.String(), "VgAll")
	var neg, pos, negLA, star, plus, quest, bang int
	for _, pr := range ast.Productions {
		vhCountOps(pr.Expression, &neg, &pos, &negLA, &star, &plus, &quest, &bang)
	}
	vAssert(neg == 1, "C14: the ~ operator of the grammar is missing from the EBNF")
	vAssert(pos == 1 && negLA == 1, "C14: a lookahead group of the grammar is missing from the EBNF")
	vAssert(bang == 1, "C14: the ! modifier of the grammar is missing from the EBNF")
	vAssert(star == 3 && plus == 1 && quest == 7, "C14: modifiers of the grammar are missing from the EBNF")
	vObserve("ebnf", p.String())
	vReach("grammar")
}

func VH_C14_Grammar_Union() {
	p, err := participle.Build[vgWithUnion](participle.Lexer(vhLexDef), participle.Union[vgUnionIface](vgUA{}, vgUB{}))
	vAssert(err == nil, "catalogue grammar must build")
	vhGrammarRoundTrip(p.String(), "VgWithUnion")
	vObserve("ebnf", p.String())
	vReach("grammar")
}

// an anonymous struct type as grammar: String() must not panic
func VH_C14_Grammar_Anonymous() {
	p, err := participle.Build[struct {
		A string `@A`
		B *struct {
			C string `@B`
		} `@@?`
	}](participle.Lexer(vhLexDef))
	vAssert(err == nil, "catalogue grammar must build")
	s := p.String()
	_, perr := ParseString(s)
	vAssert(perr == nil, "C14: Parser.String() of an anonymous grammar is not accepted by the ebnf package")
	vReach("grammar")
}

// C09: the package-level parser is shared: freeze it and use it repeatedly.
func VH_C09_EBNFParser() {
	vFreeze(parser)
	texts := []string{"A = \"a\" .", "A = B* | ~\"x\" (?= C) .\nB = <tok>+ .", "A = ", "= ."}
	t := texts[vChoose("text", len(texts))]
	a1, e1 := ParseString(t)
	a2, e2 := ParseString(t)
	vAssert((e1 == nil) == (e2 == nil), "C09: repeated ParseString differs")
	if e1 == nil {
		vAssert(a1.String() == a2.String(), "C09: repeated ParseString differs")
		vReach("parsed")
	} else {
		vAssert(e1.Error() == e2.Error(), "C09: repeated ParseString differs")
		vReach("failed")
	}
}

func VH_C14_Canary() {
	e := vhExpr(0)
	vAssert(len(e.Alternatives) == 1, "canary: must fail")
}

// ---------- generated grammars (zz_verif_ggcore.go, shared with the root package) ----------

const vhGenEBNF = 48 // @tier quick=48 thorough=400

var vhGenLexDef = lexer.MustSimple([]lexer.SimpleRule{{Name: "A", Pattern: "a"}, {Name: "B", Pattern: "b"}, {Name: "C", Pattern: "c"}, {Name: "Ws", Pattern: " "}})

type vhOps struct{ neg, pos, negLA, star, plus, quest, bang, lits, toks, refs int }

func vhCountRx(e *rx, p *ggProd, seen map[reflect.Type]bool, c *vhOps) {
	switch e.kind {
	case kLit, kTLit:
		c.lits++
	case kRef:
		c.toks++
	case kNeg:
		c.neg++
	case kLA:
		if e.neg {
			c.negLA++
		} else {
			c.pos++
		}
	case kGrp:
		switch e.mode {
		case mOpt:
			c.quest++
		case mStar:
			c.star++
		case mPlus:
			c.plus++
		case mNonEmpty:
			c.bang++
		}
	case kSub:
		c.refs++
		vhCountProd(p.subs[e.field], seen, c)
	}
	for _, k := range e.kids {
		vhCountRx(k, p, seen, c)
	}
}

func vhCountProd(p *ggProd, seen map[reflect.Type]bool, c *vhOps) {
	if seen[p.rt] {
		return
	}
	seen[p.rt] = true
	vhCountRx(p.expr, p, seen, c)
}

func vhCountEBNF(x *Expression, c *vhOps) {
	for _, s := range x.Alternatives {
		for _, t := range s.Terms {
			if t.Negation {
				c.neg++
			}
			switch t.Repetition {
			case "*":
				c.star++
			case "+":
				c.plus++
			case "?":
				c.quest++
			case "!":
				c.bang++
			}
			switch {
			case t.Name != "":
				c.refs++
			case t.Literal != "":
				c.lits++
			case t.Token != "":
				c.toks++
			}
			if t.Group != nil {
				switch t.Group.Lookahead {
				case LookaheadAssertionPositive:
					c.pos++
				case LookaheadAssertionNegative:
					c.negLA++
				}
				vhCountEBNF(t.Group.Expr, c)
			}
		}
	}
}

// VH_C14_Generated: Parser.String() of generated grammar number idx (every
// operator, nesting, sub-productions, literals needing escapes, anonymous
// struct types) parses, defines everything once, survives the second round
// trip and contains every operator, literal and reference of the grammar.
func VH_C14_Generated() {
	idx := vChoose("grammar", vhGenEBNF)
	root := vhGeneratedProd(idx, false, false, ggEscVals)
	member := reflect.New(root.rt).Elem().Interface()
	p, err := participle.Build[any](participle.Lexer(vhGenLexDef), participle.Elide("Ws"), participle.Union[any](member))
	if err != nil {
		vReach("rejected")
		return
	}
	text := p.String()
	ast := vhGrammarRoundTrip(text, "")
	var want, got vhOps
	vhCountProd(root, map[reflect.Type]bool{}, &want)
	want.refs++ // the union's reference to its member
	for _, pr := range ast.Productions {
		vhCountEBNF(pr.Expression, &got)
	}
	vAssert(got.neg == want.neg, "C14: a ~ operator of the grammar is missing from (or invented in) the EBNF")
	vAssert(got.pos == want.pos && got.negLA == want.negLA, "C14: a lookahead group of the grammar is missing from the EBNF")
	vAssert(got.star == want.star && got.plus == want.plus && got.quest == want.quest && got.bang == want.bang, "C14: a modifier of the grammar is missing from the EBNF")
	vAssert(got.lits == want.lits && got.toks == want.toks, "C14: a literal or token reference of the grammar is missing from the EBNF")
	vAssert(got.refs == want.refs, "C14: a production reference of the grammar is missing from the EBNF")
	vhStructEqual(root, ast)
	vObserve("ebnf", text)
	vReach("grammar")
}

// ---------- structural comparison of the EBNF with the generated grammar ----------
//
// Both sides are brought to one canonical shape: captures are transparent,
// plain groups and one-element sequences/choices are dropped, nested
// sequences in sequences (and choices in choices) are flattened.

type vhShape struct {
	kind string // lit tok ref seq alt neg la nla rep
	text string // literal text, token name, repetition
	kids []*vhShape
}

func vhFlat(kind string, kids []*vhShape) *vhShape {
	var out []*vhShape
	for _, k := range kids {
		if k.kind == kind {
			out = append(out, k.kids...)
		} else {
			out = append(out, k)
		}
	}
	if len(out) == 1 {
		return out[0]
	}
	return &vhShape{kind: kind, kids: out}
}

func vhShapeOfRx(e *rx) *vhShape {
	switch e.kind {
	case kLit, kTLit:
		return &vhShape{kind: "lit", text: e.s}
	case kRef:
		return &vhShape{kind: "tok", text: vhLower(e.typ)}
	case kSeq, kAlt:
		var kids []*vhShape
		for _, k := range e.kids {
			kids = append(kids, vhShapeOfRx(k))
		}
		if e.kind == kSeq {
			return vhFlat("seq", kids)
		}
		return vhFlat("alt", kids)
	case kCap:
		return vhShapeOfRx(e.kids[0])
	case kSub:
		return &vhShape{kind: "ref"}
	case kNeg:
		return &vhShape{kind: "neg", kids: []*vhShape{vhShapeOfRx(e.kids[0])}}
	case kLA:
		k := "la"
		if e.neg {
			k = "nla"
		}
		return &vhShape{kind: k, kids: []*vhShape{vhShapeOfRx(e.kids[0])}}
	case kGrp:
		body := vhShapeOfRx(e.kids[0])
		switch e.mode {
		case mOpt:
			return &vhShape{kind: "rep", text: "?", kids: []*vhShape{body}}
		case mStar:
			return &vhShape{kind: "rep", text: "*", kids: []*vhShape{body}}
		case mPlus:
			return &vhShape{kind: "rep", text: "+", kids: []*vhShape{body}}
		case mNonEmpty:
			return &vhShape{kind: "rep", text: "!", kids: []*vhShape{body}}
		}
		return body
	}
	panic("unknown rx kind")
}

func vhLower(s string) string {
	b := []byte(s)
	for i, c := range b {
		if c >= 'A' && c <= 'Z' {
			b[i] = c + 32
		}
	}
	return string(b)
}

func vhShapeOfExpr(x *Expression) *vhShape {
	var alts []*vhShape
	for _, s := range x.Alternatives {
		var terms []*vhShape
		for _, t := range s.Terms {
			terms = append(terms, vhShapeOfTerm(t))
		}
		alts = append(alts, vhFlat("seq", terms))
	}
	return vhFlat("alt", alts)
}

func vhShapeOfTerm(t *Term) *vhShape {
	var base *vhShape
	switch {
	case t.Name != "":
		base = &vhShape{kind: "ref"}
	case t.Literal != "":
		text, err := strconv.Unquote(t.Literal)
		vAssert(err == nil, "C14: a literal of the EBNF is not a Go string literal")
		base = &vhShape{kind: "lit", text: text}
	case t.Token != "":
		base = &vhShape{kind: "tok", text: t.Token}
	default:
		inner := vhShapeOfExpr(t.Group.Expr)
		switch t.Group.Lookahead {
		case LookaheadAssertionPositive:
			base = &vhShape{kind: "la", kids: []*vhShape{inner}}
		case LookaheadAssertionNegative:
			base = &vhShape{kind: "nla", kids: []*vhShape{inner}}
		default:
			base = inner
		}
	}
	// ~ binds to the operand, the modifier to the negated operand
	if t.Negation {
		base = &vhShape{kind: "neg", kids: []*vhShape{base}}
	}
	if t.Repetition != "" {
		base = &vhShape{kind: "rep", text: t.Repetition, kids: []*vhShape{base}}
	}
	return base
}

func vhSameShape(a, b *vhShape) bool {
	if a.kind != b.kind || a.text != b.text || len(a.kids) != len(b.kids) {
		return false
	}
	for i := range a.kids {
		if !vhSameShape(a.kids[i], b.kids[i]) {
			return false
		}
	}
	return true
}

// vhStructEqual: every generated production has a production of the EBNF with
// the same structure (the union root's member list comes first).
func vhStructEqual(root *ggProd, ast *EBNF) {
	seen := map[reflect.Type]bool{}
	var walk func(p *ggProd)
	walk = func(p *ggProd) {
		if seen[p.rt] {
			return
		}
		seen[p.rt] = true
		want := vhShapeOfRx(p.expr)
		found := false
		for _, pr := range ast.Productions[1:] {
			if vhSameShape(want, vhShapeOfExpr(pr.Expression)) {
				found = true
			}
		}
		vAssert(found, "C14: no production of the EBNF has the structure of a production of the grammar (an operator is lost, altered or applied to the wrong operand)")
		for _, sub := range p.subs {
			if sub != nil {
				walk(sub)
			}
		}
	}
	walk(root)
}

// ---------- a modified, captured group as the whole body of a production ----------

type vgWholeAlt struct {
	Signs []string `@( "+" | "-" )*`
}
type vgWholeSeq struct {
	Path []string `@( A "." )+`
}
type vgWholeOpt struct {
	O string `( @A B )?`
}
type vgWhole struct {
	S *vgWholeAlt `@@`
	P *vgWholeSeq `@@`
	O *vgWholeOpt `@@`
	L string      `(?! @( "a" | "b" )+ ) @A`
}

func vhLit(s string) *vhShape { return &vhShape{kind: "lit", text: s} }
func vhTok(s string) *vhShape { return &vhShape{kind: "tok", text: s} }
func vhRep(m string, k *vhShape) *vhShape {
	return &vhShape{kind: "rep", text: m, kids: []*vhShape{k}}
}
func vhKids(kind string, kids ...*vhShape) *vhShape { return &vhShape{kind: kind, kids: kids} }

func VH_C14_Grammar_WholeBody() {
	p, err := participle.Build[vgWhole](participle.Lexer(vhLexDef))
	vAssert(err == nil, "catalogue grammar must build")
	ast := vhGrammarRoundTrip(p.String(), "VgWhole")
	want := map[string]*vhShape{
		"VgWholeAlt": vhRep("*", vhKids("alt", vhLit("+"), vhLit("-"))),
		"VgWholeSeq": vhRep("+", vhKids("seq", vhTok("a"), vhLit("."))),
		"VgWholeOpt": vhRep("?", vhKids("seq", vhTok("a"), vhTok("b"))),
		"VgWhole": vhKids("seq", &vhShape{kind: "ref"}, &vhShape{kind: "ref"}, &vhShape{kind: "ref"},
			vhKids("nla", vhRep("+", vhKids("alt", vhLit("a"), vhLit("b")))), vhTok("a")),
	}
	n := 0
	for _, pr := range ast.Productions {
		if w, ok := want[pr.Production]; ok {
			n++
			vAssert(vhSameShape(w, vhShapeOfExpr(pr.Expression)), "C14: a modifier of the grammar is applied to the wrong operand in the EBNF")
		}
	}
	vAssert(n == len(want), "C14: a production of the grammar is missing from the EBNF")
	vObserve("ebnf", p.String())
	vReach("grammar")
}

// ---------- negation of operands that carry operators themselves ----------

type vgNegShapes struct {
	A string `~( "a"? ) @A`
	B string `~( ~"a" ) @A`
	C string `( ~( "a" | "b" ) )* @A`
	D string `~( "a" "b" )? ~(?= "a" ) @A`
}

func vhNeg(k *vhShape) *vhShape { return vhKids("neg", k) }

func VH_C14_Grammar_Negations() {
	p, err := participle.Build[vgNegShapes](participle.Lexer(vhLexDef))
	vAssert(err == nil, "catalogue grammar must build")
	ast := vhGrammarRoundTrip(p.String(), "VgNegShapes")
	want := vhKids("seq",
		vhNeg(vhRep("?", vhLit("a"))), vhTok("a"),
		vhNeg(vhNeg(vhLit("a"))), vhTok("a"),
		vhRep("*", vhNeg(vhKids("alt", vhLit("a"), vhLit("b")))), vhTok("a"),
		vhRep("?", vhNeg(vhKids("seq", vhLit("a"), vhLit("b")))), vhNeg(vhKids("la", vhLit("a"))), vhTok("a"))
	vAssert(vhSameShape(want, vhShapeOfExpr(ast.Productions[0].Expression)), "C14: ~ or a modifier of the grammar is applied to the wrong operand in the EBNF")
	vObserve("ebnf", p.String())
	vReach("grammar")
}

// ---------- captures inside parentheses between two operators ----------

type vgCapParens struct {
	A string `~( @~"a" )`
	B string `( @( "a"? ) )*`
	C string `~( @( "a"? ) ) @A`
	D string `( @( ~"a" ) )+`
	E string `( @( "a" | "b" ) )! ( @( "a"* ) )?`
}

func VH_C14_Grammar_CapParens() {
	p, err := participle.Build[vgCapParens](participle.Lexer(vhLexDef))
	vAssert(err == nil, "catalogue grammar must build")
	ast := vhGrammarRoundTrip(p.String(), "VgCapParens")
	want := vhKids("seq",
		vhNeg(vhNeg(vhLit("a"))),
		vhRep("*", vhRep("?", vhLit("a"))),
		vhNeg(vhRep("?", vhLit("a"))), vhTok("a"),
		vhRep("+", vhNeg(vhLit("a"))),
		vhRep("!", vhKids("alt", vhLit("a"), vhLit("b"))), vhRep("?", vhRep("*", vhLit("a"))))
	vAssert(vhSameShape(want, vhShapeOfExpr(ast.Productions[0].Expression)), "C14: ~ or a modifier of the grammar is applied to the wrong operand in the EBNF")
	vObserve("ebnf", p.String())
	vReach("grammar")
}

// ---------- anonymous struct productions whose types differ in punctuation only ----------

type vgAnonTwins struct {
	X struct {
		V string `@A`
	} `@@`
	Y struct {
		V string `@A?`
	} `@@`
	Z *struct {
		V string `@A*`
	} `@@?`
}

func VH_C14_Grammar_AnonTwins() {
	p, err := participle.Build[vgAnonTwins](participle.Lexer(vhLexDef))
	vAssert(err == nil, "catalogue grammar must build")
	ast := vhGrammarRoundTrip(p.String(), "VgAnonTwins")
	vAssert(len(ast.Productions) == 4, "C14: distinct anonymous productions are merged or missing in the EBNF")
	vObserve("ebnf", p.String())
	vReach("grammar")
}

// ---------- production types whose names start with a non-ASCII letter ----------

type élément struct {
	V string `@A`
}
type ähnlich struct {
	E *élément `@@`
	W string   `@"w"?`
}
type vgNonASCIITypes struct {
	First *élément   `@@`
	Rest  []*ähnlich `@@*`
}

func VH_C14_Grammar_NonASCIITypes() {
	p, err := participle.Build[vgNonASCIITypes](participle.Lexer(vhLexDef))
	vAssert(err == nil, "catalogue grammar must build")
	ast := vhGrammarRoundTrip(p.String(), "VgNonASCIITypes")
	vAssert(len(ast.Productions) == 3, "C14: a production of the grammar is missing from the EBNF or defined twice")
	vObserve("ebnf", p.String())
	vReach("grammar")
}

// ---------- productions referenced only from inside lookahead groups ----------

type vgKwNeg struct {
	K string `@( "end" | "else" )`
}
type vgKwPos struct {
	K string `@"begin"`
}
type vgLookaheadOnly struct {
	Guard *vgKwNeg `(?! @@ )`
	Ahead *vgKwPos `(?= @@ )?`
	Name  string   `@A`
}

func VH_C14_Grammar_LookaheadOnly() {
	p, err := participle.Build[vgLookaheadOnly](participle.Lexer(vhLexDef))
	vAssert(err == nil, "catalogue grammar must build")
	ast := vhGrammarRoundTrip(p.String(), "VgLookaheadOnly")
	vAssert(len(ast.Productions) == 3, "C14: a production referenced from a lookahead group is not defined (or defined twice)")
	vObserve("ebnf", p.String())
	vReach("grammar")
}
