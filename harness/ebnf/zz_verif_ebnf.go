package ebnf

// C14 — Parser.String() is valid, complete EBNF that survives a round trip.
//
// (a) printer/parser round trip on symbolic syntax trees: Negation,
//     Lookahead and Repetition are symbolic, the tree is printed by the real
//     String methods and parsed back by the real ebnf parser (text/scanner is
//     executed from SSA on the printed text);
// (b) whole grammars: real Build, real Parser.String(), parsed by the real
//     ebnf parser: root first, every production defined once, every reference
//     defined, second round trip equal.
// Also C09 for the package-level parser: it is frozen and used repeatedly.

import (
	"reflect"

	"github.com/alecthomas/participle/v2"
	"github.com/alecthomas/participle/v2/lexer"
)

var vhReps = []string{"", "*", "+", "?", "!"}

// literal texts as Parser.String() prints them (%q): plain, ending in an
// escaped backslash, holding an escaped quote, control and non-ASCII bytes
var vhLiterals = []string{`"lit"`, `"\\"`, `"\""`, `"a\\"`, `"\n"`, `"\\\""`, `"é"`, `"\x00"`, `"|"`}

// vhLeaf is a term without a group; simple leaves have no modifier.
func vhLeaf(simple bool) *Term {
	t := &Term{Negation: vBool("negation")}
	if !simple {
		t.Repetition = vhReps[vChoose("repetition", len(vhReps))]
	}
	switch vChoose("kind", 3) {
	case 0:
		t.Name = "Prod"
	case 1:
		t.Literal = `"lit"`
	default:
		t.Token = "tok"
	}
	return t
}

// vhTerm: a leaf, or (depth > 0) a group with any lookahead marker around a
// one-term expression.
func vhTerm(depth int) *Term {
	if depth == 0 || vChoose("group", 2) == 0 {
		return vhLeaf(false)
	}
	t := &Term{Negation: vBool("negation"), Repetition: vhReps[vChoose("repetition", len(vhReps))]}
	la := []LookaheadAssertion{LookaheadAssertionNone, LookaheadAssertionNegative, LookaheadAssertionPositive}[vChoose("lookahead", 3)]
	inner := &Expression{Alternatives: []*Sequence{{Terms: []*Term{vhTerm(depth - 1)}}}}
	t.Group = &SubExpression{Lookahead: la, Expr: inner}
	return t
}

// vhExpr: one term; or two terms in sequence; or two alternatives (the
// second element is a simple leaf to keep the space finite and small).
func vhExpr(depth int) *Expression {
	first := vhTerm(depth)
	switch vChoose("shape", 3) {
	case 0:
		return &Expression{Alternatives: []*Sequence{{Terms: []*Term{first}}}}
	case 1:
		return &Expression{Alternatives: []*Sequence{{Terms: []*Term{first, vhLeaf(true)}}}}
	}
	return &Expression{Alternatives: []*Sequence{{Terms: []*Term{first}}, {Terms: []*Term{vhLeaf(true)}}}}
}

func vhSameTerm(a, b *Term) {
	vAssert(a.Negation == b.Negation, "C14: ~ is lost or invented by the round trip")
	vAssert(a.Repetition == b.Repetition, "C14: a modifier is lost or altered by the round trip")
	vAssert(a.Name == b.Name && a.Literal == b.Literal && a.Token == b.Token, "C14: a reference, literal or token is altered by the round trip")
	vAssert((a.Group == nil) == (b.Group == nil), "C14: a group is lost or invented by the round trip")
	if a.Group != nil {
		vAssert(a.Group.Lookahead == b.Group.Lookahead, "C14: a lookahead operator is lost or altered by the round trip")
		vhSameExpr(a.Group.Expr, b.Group.Expr)
	}
}

func vhSameExpr(a, b *Expression) {
	vAssert(len(a.Alternatives) == len(b.Alternatives), "C14: number of alternatives changes in the round trip")
	for i := range a.Alternatives {
		vAssert(len(a.Alternatives[i].Terms) == len(b.Alternatives[i].Terms), "C14: number of terms changes in the round trip")
		for j := range a.Alternatives[i].Terms {
			vhSameTerm(a.Alternatives[i].Terms[j], b.Alternatives[i].Terms[j])
		}
	}
}

const vhTreeDepth = 1 // @tier quick=1 thorough=2

func VH_C14_TreeRoundTrip() {
	e := vhExpr(vhTreeDepth)
	tree := &EBNF{Productions: []*Production{{Production: "Root", Expression: e}}}
	text := tree.String()
	back, err := ParseString(text)
	vAssert(err == nil, "C14: printed EBNF does not parse")
	vAssert(len(back.Productions) == 1 && back.Productions[0].Production == "Root", "C14: production lost")
	vhSameExpr(e, back.Productions[0].Expression)
	vReach("round-trip")
}

// VH_C14_Literals: two or three literal terms (sequence or alternatives) with
// texts that need escaping, printed and parsed back.
func VH_C14_Literals() {
	lit := func() *Term {
		return &Term{Negation: vBool("negation"), Literal: vhLiterals[vChoose("literal", len(vhLiterals))]}
	}
	a, b, c := lit(), lit(), lit()
	var e *Expression
	switch vChoose("shape", 3) {
	case 0:
		e = &Expression{Alternatives: []*Sequence{{Terms: []*Term{a, b}}}}
	case 1:
		e = &Expression{Alternatives: []*Sequence{{Terms: []*Term{a}}, {Terms: []*Term{b}}}}
	default:
		e = &Expression{Alternatives: []*Sequence{{Terms: []*Term{a, b}}, {Terms: []*Term{c}}}}
	}
	tree := &EBNF{Productions: []*Production{{Production: "Root", Expression: e}}}
	back, err := ParseString(tree.String())
	vAssert(err == nil, "C14: printed EBNF with escaped literals does not parse")
	vAssert(len(back.Productions) == 1 && back.Productions[0].Production == "Root", "C14: production lost")
	vhSameExpr(e, back.Productions[0].Expression)
	vReach("round-trip")
}

// ---------- whole grammars ----------

var vhLexDef = lexer.MustSimple([]lexer.SimpleRule{{Name: "A", Pattern: "a"}, {Name: "B", Pattern: "b"}, {Name: "C", Pattern: "c"}, {Name: "ws", Pattern: " "}})

type vgInner struct {
	X string `@A`
	Y string `@B?`
}

type vgAll struct {
	Neg  []string   `( @~"x" )*`
	LA   string     `( (?= A B ) @A | (?! "x" ) @C )`
	Sub  *vgInner   `@@?`
	Subs []*vgInner `( "," @@ )*`
	Opt  string     `[ @"!" ]`
	Rep  []string   `{ @B }`
	NE   string     `( @A? @B? )!`
	Rec  *vgAll     `( "(" @@ ")" )?`
	Tl   string     `@"t":A+`
	Esc  string     `( @"\\" | @"a\\" "\"" | @"\n" )?`
}

type vgUnionIface interface{ isU() }
type vgUA struct {
	V string `@A`
}
type vgUB struct {
	V string `@B "\"" "\\"`
}

func (vgUA) isU() {}
func (vgUB) isU() {}

type vgWithUnion struct {
	Vals []vgUnionIface `@@+`
	Tail *vgInner       `@@?`
}

func vhDefinedOnce(e *EBNF) {
	for i, p := range e.Productions {
		for j, q := range e.Productions {
			vAssert(i == j || p.Production != q.Production, "C14: a production is defined more than once")
		}
	}
}

func vhRefsDefined(e *EBNF, x *Expression) {
	for _, s := range x.Alternatives {
		for _, t := range s.Terms {
			if t.Name != "" {
				found := false
				for _, p := range e.Productions {
					if p.Production == t.Name {
						found = true
					}
				}
				vAssert(found, "C14: a referenced production is not defined")
			}
			if t.Group != nil {
				vhRefsDefined(e, t.Group.Expr)
			}
		}
	}
}

func vhCountOps(x *Expression, neg, pos, negLA, star, plus, quest, bang *int) {
	for _, s := range x.Alternatives {
		for _, t := range s.Terms {
			if t.Negation {
				*neg++
			}
			switch t.Repetition {
			case "*":
				*star++
			case "+":
				*plus++
			case "?":
				*quest++
			case "!":
				*bang++
			}
			if t.Group != nil {
				switch t.Group.Lookahead {
				case LookaheadAssertionPositive:
					*pos++
				case LookaheadAssertionNegative:
					*negLA++
				}
				vhCountOps(t.Group.Expr, neg, pos, negLA, star, plus, quest, bang)
			}
		}
	}
}

func vhGrammarRoundTrip(text string, rootName string) *EBNF {
	ast, err := ParseString(text)
	vAssert(err == nil, "C14: Parser.String() is not accepted by the ebnf package")
	vAssert(len(ast.Productions) > 0 && (rootName == "" || ast.Productions[0].Production == rootName), "C14: the root production does not come first")
	vhDefinedOnce(ast)
	for _, p := range ast.Productions {
		vhRefsDefined(ast, p.Expression)
	}
	again, err2 := ParseString(ast.String())
	vAssert(err2 == nil, "C14: printed syntax tree does not parse")
	vAssert(len(again.Productions) == len(ast.Productions), "C14: number of productions changes in the round trip")
	for i := range ast.Productions {
		vAssert(ast.Productions[i].Production == again.Productions[i].Production, "C14: production name changes in the round trip")
		vhSameExpr(ast.Productions[i].Expression, again.Productions[i].Expression)
	}
	return ast
}

func VH_C14_Grammar_All() {
	p, err := participle.Build[vgAll](participle.Lexer(vhLexDef))
	vAssert(err == nil, "catalogue grammar must build")
	ast := vhGrammarRoundTrip(p.String(), "VgAll")
	var neg, pos, negLA, star, plus, quest, bang int
	for _, pr := range ast.Productions {
		vhCountOps(pr.Expression, &neg, &pos, &negLA, &star, &plus, &quest, &bang)
	}
	vAssert(neg == 1, "C14: the ~ operator of the grammar is missing from the EBNF")
	vAssert(pos == 1 && negLA == 1, "C14: a lookahead group of the grammar is missing from the EBNF")
	vAssert(bang == 1, "C14: the ! modifier of the grammar is missing from the EBNF")
	vAssert(star == 3 && plus == 1 && quest == 7, "C14: modifiers of the grammar are missing from the EBNF")
	vObserve("ebnf", p.String())
	vReach("grammar")
}

func VH_C14_Grammar_Union() {
	p, err := participle.Build[vgWithUnion](participle.Lexer(vhLexDef), participle.Union[vgUnionIface](vgUA{}, vgUB{}))
	vAssert(err == nil, "catalogue grammar must build")
	vhGrammarRoundTrip(p.String(), "VgWithUnion")
	vObserve("ebnf", p.String())
	vReach("grammar")
}

// an anonymous struct type as grammar: String() must not panic
func VH_C14_Grammar_Anonymous() {
	p, err := participle.Build[struct {
		A string `@A`
		B *struct {
			C string `@B`
		} `@@?`
	}](participle.Lexer(vhLexDef))
	vAssert(err == nil, "catalogue grammar must build")
	s := p.String()
	_, perr := ParseString(s)
	vAssert(perr == nil, "C14: Parser.String() of an anonymous grammar is not accepted by the ebnf package")
	vReach("grammar")
}

// C09: the package-level parser is shared: freeze it and use it repeatedly.
func VH_C09_EBNFParser() {
	vFreeze(parser)
	texts := []string{"A = \"a\" .", "A = B* | ~\"x\" (?= C) .\nB = <tok>+ .", "A = ", "= ."}
	t := texts[vChoose("text", len(texts))]
	a1, e1 := ParseString(t)
	a2, e2 := ParseString(t)
	vAssert((e1 == nil) == (e2 == nil), "C09: repeated ParseString differs")
	if e1 == nil {
		vAssert(a1.String() == a2.String(), "C09: repeated ParseString differs")
		vReach("parsed")
	} else {
		vAssert(e1.Error() == e2.Error(), "C09: repeated ParseString differs")
		vReach("failed")
	}
}

func VH_C14_Canary() {
	e := vhExpr(0)
	vAssert(len(e.Alternatives) == 1, "canary: must fail")
}

// ---------- generated grammars (zz_verif_ggcore.go, shared with the root package) ----------

const vhGenEBNF = 48 // @tier quick=48 thorough=400

var vhGenLexDef = lexer.MustSimple([]lexer.SimpleRule{{Name: "A", Pattern: "a"}, {Name: "B", Pattern: "b"}, {Name: "C", Pattern: "c"}, {Name: "Ws", Pattern: " "}})

type vhOps struct{ neg, pos, negLA, star, plus, quest, bang, lits, toks, refs int }

func vhCountRx(e *rx, p *ggProd, seen map[reflect.Type]bool, c *vhOps) {
	switch e.kind {
	case kLit, kTLit:
		c.lits++
	case kRef:
		c.toks++
	case kNeg:
		c.neg++
	case kLA:
		if e.neg {
			c.negLA++
		} else {
			c.pos++
		}
	case kGrp:
		switch e.mode {
		case mOpt:
			c.quest++
		case mStar:
			c.star++
		case mPlus:
			c.plus++
		case mNonEmpty:
			c.bang++
		}
	case kSub:
		c.refs++
		vhCountProd(p.subs[e.field], seen, c)
	}
	for _, k := range e.kids {
		vhCountRx(k, p, seen, c)
	}
}

func vhCountProd(p *ggProd, seen map[reflect.Type]bool, c *vhOps) {
	if seen[p.rt] {
		return
	}
	seen[p.rt] = true
	vhCountRx(p.expr, p, seen, c)
}

func vhCountEBNF(x *Expression, c *vhOps) {
	for _, s := range x.Alternatives {
		for _, t := range s.Terms {
			if t.Negation {
				c.neg++
			}
			switch t.Repetition {
			case "*":
				c.star++
			case "+":
				c.plus++
			case "?":
				c.quest++
			case "!":
				c.bang++
			}
			switch {
			case t.Name != "":
				c.refs++
			case t.Literal != "":
				c.lits++
			case t.Token != "":
				c.toks++
			}
			if t.Group != nil {
				switch t.Group.Lookahead {
				case LookaheadAssertionPositive:
					c.pos++
				case LookaheadAssertionNegative:
					c.negLA++
				}
				vhCountEBNF(t.Group.Expr, c)
			}
		}
	}
}

// VH_C14_Generated: Parser.String() of generated grammar number idx (every
// operator, nesting, sub-productions, literals needing escapes, anonymous
// struct types) parses, defines everything once, survives the second round
// trip and contains every operator, literal and reference of the grammar.
func VH_C14_Generated() {
	idx := vChoose("grammar", vhGenEBNF)
	root := vhGeneratedProd(idx, false, false, ggEscVals)
	member := reflect.New(root.rt).Elem().Interface()
	p, err := participle.Build[any](participle.Lexer(vhGenLexDef), participle.Elide("Ws"), participle.Union[any](member))
	if err != nil {
		vReach("rejected")
		return
	}
	text := p.String()
	ast := vhGrammarRoundTrip(text, "")
	var want, got vhOps
	vhCountProd(root, map[reflect.Type]bool{}, &want)
	want.refs++ // the union's reference to its member
	for _, pr := range ast.Productions {
		vhCountEBNF(pr.Expression, &got)
	}
	vAssert(got.neg == want.neg, "C14: a ~ operator of the grammar is missing from (or invented in) the EBNF")
	vAssert(got.pos == want.pos && got.negLA == want.negLA, "C14: a lookahead group of the grammar is missing from the EBNF")
	vAssert(got.star == want.star && got.plus == want.plus && got.quest == want.quest && got.bang == want.bang, "C14: a modifier of the grammar is missing from the EBNF")
	vAssert(got.lits == want.lits && got.toks == want.toks, "C14: a literal or token reference of the grammar is missing from the EBNF")
	vAssert(got.refs == want.refs, "C14: a production reference of the grammar is missing from the EBNF")
	vObserve("ebnf", text)
	vReach("grammar")
}
