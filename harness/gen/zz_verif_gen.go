package zzverifgen

// C05 — generated lexer code behaves exactly like the runtime lexer.
// This file is overlaid, together with the source emitted by the real
// generator for each catalogue definition, into a virtual package inside
// /repo.  The SSA that is executed for the generated side is the SSA of the
// code the generator emitted from the current tree.

import (
	"github.com/alecthomas/participle/v2/lexer"
)

const vhMaxInput = 3 // @tier quick=3 thorough=4

func vhInput() string {
	n := vChoose("len", vhMaxInput+1)
	return vString("in", n)
}

type vhPositioned interface {
	Position() lexer.Position
}

func vhC05(rules lexer.Rules, gen lexer.Definition) {
	in := vhInput()
	rdef, err := lexer.New(rules)
	vAssert(err == nil, "catalogue definition must be accepted by New")

	// same symbol table
	rs, gs := rdef.Symbols(), gen.Symbols()
	vAssert(len(rs) == len(gs), "C05: symbol tables differ in size")
	for k, v := range rs {
		gv, ok := gs[k]
		vAssert(ok && gv == v, "C05: symbol tables differ")
	}

	vTrackPossessive(true)
	rl, _ := rdef.LexString("f", in)
	rtoks, rerr := lexer.ConsumeAll(rl)
	vTrackPossessive(false)

	// the runtime lexer has finished on this input, so must the generated one
	vStepLimit(1000000, "C05: generated lexer did not terminate on an input the runtime lexer finishes")
	gl, lerr := gen.(lexer.StringDefinition).LexString("f", in)
	vAssert(lerr == nil, "C05: generated LexString failed")
	gtoks, gerr := lexer.ConsumeAll(gl)
	vStepLimit(0, "")

	if vPossessiveDiffered() {
		// the documented tolerated difference: possessive matching of some
		// rule differs from backtracking matching on this input
		vReach("tolerated")
		return
	}
	if rerr != nil {
		vReach("error")
		vAssert(gerr != nil, "C05: runtime lexer reports an error but the generated lexer succeeds")
		rp, ok1 := rerr.(vhPositioned)
		gp, ok2 := gerr.(vhPositioned)
		vAssert(ok1 && ok2, "C05: lexing error without a position")
		vAssert(rp.Position() == gp.Position(), "C05: errors at different positions")
		return
	}
	vAssert(gerr == nil, "C05: generated lexer reports an error but the runtime lexer succeeds")
	vAssert(len(rtoks) == len(gtoks), "C05: token streams differ in length (elision or splitting differs)")
	for i := range rtoks {
		vAssert(rtoks[i].Type == gtoks[i].Type, "C05: token type differs")
		vAssert(rtoks[i].Value == gtoks[i].Value, "C05: token value differs")
		vAssert(rtoks[i].Pos == gtoks[i].Pos, "C05: token position differs")
	}
	if len(rtoks) > 1 {
		vReach("tokens")
	}
}

// vhC07Gen: the generated lexer terminates, progresses and never panics.
func vhC07Gen(gen lexer.Definition) {
	in := vhInput()
	lex, _ := gen.(lexer.StringDefinition).LexString("f", in)
	calls := 0
	for {
		t, err := lex.Next()
		calls++
		vAssert(calls <= len(in)+1, "C07: more Next calls than input bytes + 1")
		if err != nil {
			vReach("error")
			lex.Next()
			return
		}
		if t.EOF() {
			t2, err2 := lex.Next()
			vAssert(err2 == nil && t2.EOF() && t2.Pos == t.Pos, "C07: Next after EOF is not EOF at the same position")
			vReach("eof")
			return
		}
		vAssert(len(t.Value) > 0, "C07: empty non-EOF token")
	}
}
