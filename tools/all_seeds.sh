#!/bin/bash
# Runs every stored seeded change (or those named on the command line) against
# the check of the property it breaks, in a scratch worktree of /repo's HEAD
# (VERIF_REPO) with evidence and replay files redirected (VERIF_OUT), so /repo
# and /verif/evidence are not touched.  Prints one line per seed.
V="$(cd "$(dirname "$0")/.." && pwd)"
W=$(mktemp -d /tmp/allseeds.XXXXXX)
git -C /repo worktree add -q --detach "$W/repo" HEAD || exit 2
trap 'git -C /repo worktree remove --force "$W/repo"; git -C /repo worktree prune; rm -rf "$W"' EXIT
names="$*"; [ -z "$names" ] && names=$(cd "$V/seeded" && ls -d */ | tr -d /)
for n in $names; do
  d="$V/seeded/$n"
  prop=${n%%-*}
  props="$prop $(python3 -c "import json; print(' '.join(json.load(open('$d/meta.json')).get('also',[])))")"
  for p in $props; do
    git -C "$W/repo" apply "$d/patch.diff" || { echo "$n $p APPLY-FAILED"; continue; }
    out=$(VERIF_REPO="$W/repo" VERIF_OUT="$W/out" "$V/check" $p 2>&1); rc=$?
    git -C "$W/repo" checkout -q -- . ; git -C "$W/repo" clean -fdq
    h=$(echo "$out" | grep -o "harness=VH_[A-Za-z0-9_]*" | sort -u | tr '\n' ' ')
    echo "$n $p exit=$rc violations=$(echo "$out" | grep -c '^VIOLATION') $h"
  done
done
