#!/usr/bin/env python3
"""Regenerates the table of DESIGN.md section 10.5 from checks/props.py and the harness files."""
import glob, os, re, sys
here = os.path.dirname(os.path.dirname(os.path.abspath(__file__)))
sys.path.insert(0, os.path.join(here, "checks"))
import props  # noqa: E402

P = props.PROPS if hasattr(props, "PROPS") else props.SPECS
names = {}
for f in glob.glob(os.path.join(here, "harness", "*", "*.go")):
    for m in re.finditer(r"^func VH_(C\d\d)_(\w+)\(", open(f).read(), re.M):
        if not m.group(2).endswith("Canary"):
            names.setdefault(m.group(1), set()).add(m.group(2))
rows = ["| id | level | harnesses | quick bounds (abridged; full text in MANIFEST/evidence) |", "|---|---|---|---|"]
for pid in sorted(P):
    spec = P[pid]
    b = spec["bounds"]["quick"] if isinstance(spec["bounds"], dict) else str(spec["bounds"])
    h = ", ".join(sorted(names.get(pid, [])))
    if pid in ("C05", "C07"):
        h += " + one entry per catalogue/generated definition emitted by the generator pipeline"
    rows.append("| %s | %s | %s | %s |" % (pid, spec["level"], h, b[:420].replace("|", "\\|")))
text = "\n".join(rows) + "\n"
d = open(os.path.join(here, "DESIGN.md")).read()
start = d.index("| id | level | harnesses |")
end = d.find("\n\n", start)
if end < 0:
    end = len(d.rstrip("\n"))
open(os.path.join(here, "DESIGN.md"), "w").write(d[:start] + text.rstrip("\n") + d[end:])
print("section 10.5 table regenerated:", len(rows) - 2, "rows")
