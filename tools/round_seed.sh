#!/bin/bash
# tools/round_seed.sh <name> <PROP> "<needs>" — confirm a sub-agent's seeded change and run the quick check of its property against it
name=$1; prop=$2; needs=$3
/verif/tools/confirm_seed.sh "$name" "$prop" "$needs" 2>&1 | tail -7 || exit 1
[ -d /verif/seeded/$prop-$name ] || exit 1
/verif/tools/try_seed_wt.sh $prop-$name $prop 2>&1 | tail -${TAILN:-6}
