#!/bin/bash
# tools/try_seed.sh <patch.diff> <property>...  — apply a seeded change to /repo, run the
# quick checks, undo the change.  Never leaves /repo modified.
set -u
patch="$1"; shift
cd /repo || exit 3
if [ -n "$(git status --porcelain --untracked-files=no)" ]; then echo "/repo has local modifications; refusing"; exit 3; fi
git apply "$patch" || { echo "patch does not apply"; exit 3; }
trap 'git -C /repo checkout -- . ; git -C /repo status --porcelain --untracked-files=no' EXIT
out=$(mktemp)
for p in "$@"; do
  echo "== $p"
  (cd /verif && timeout 1800 ./check "$p" >"$out" 2>&1); rc=$?
  grep -E "^(VIOLATION|KNOWN|INCONCLUSIVE|  harness|  inputs|C[0-9]+ )" "$out" | cut -c1-260 | head -14
  echo "exit=$rc"
done
rm -f "$out"
