#!/bin/bash
# tools/confirm_seed.sh <name> <PROPERTY> "<needs>"  — confirm a seeded change produced in /tmp/seed/<name>
# in a fresh scratch worktree: existing suite passes with it, demo fails with it and passes without it.
# On success stores /verif/seeded/<PROPERTY>-<name>/ {patch.diff, demo files, meta.json}.
set -u
name="$1"; prop="$2"; needs="${3:-}"
src=${SEED_SRC:-/tmp/seed/$name}   # SEED_SRC: the agent's worktree; SEED_AS: name to store under
export GOFLAGS=-mod=mod GOPROXY=off GOSUMDB=off GOTOOLCHAIN=local
[ -f "$src/seed/patch.diff" ] || { echo "no patch.diff"; exit 3; }
wt=/tmp/confirm_$name
git -C /repo worktree remove --force "$wt" >/dev/null 2>&1
git -C /repo worktree add -q "$wt" HEAD || exit 3
cleanup() { git -C /repo worktree remove --force "$wt" >/dev/null 2>&1; }
trap cleanup EXIT
# demo files = untracked files of the agent's worktree outside seed/
demos=$(git -C "$src" status --porcelain | grep '^??' | awk '{print $2}' | grep -v '^seed/' | grep -v 'cmd/participle/participle$')
[ -n "$demos" ] || { echo "no demo files found"; exit 3; }
for d in $demos; do
  if [ -d "$src/$d" ]; then mkdir -p "$wt/$d"; cp -r "$src/$d/." "$wt/$d/"; else mkdir -p "$wt/$(dirname $d)"; cp "$src/$d" "$wt/$d"; fi
done
cd "$wt"
pkgs=$(for d in $demos; do if [ -d "$d" ]; then echo "./$d/..."; else echo "./$(dirname $d)"; fi; done | sort -u)
run_demo() { local rc=0; for p in $pkgs; do if echo "$p" | grep -q '^./cmd/participle'; then (cd cmd/participle && timeout 900 go test ${CONFIRM_TAGS:+-tags $CONFIRM_TAGS} -vet=off -count=1 -run 'Seed|Demo' ./... >/tmp/confirm_$name.log 2>&1) || rc=1; else timeout 900 go test ${CONFIRM_TAGS:+-tags $CONFIRM_TAGS} -vet=off -count=1 -run 'Seed|Demo' $p >/tmp/confirm_$name.log 2>&1 || rc=1; fi; done; return $rc; }
echo "-- demo on unmodified tree (must pass)"
if run_demo; then echo "   passes"; else echo "   FAILS on unmodified tree"; tail -5 /tmp/confirm_$name.log; exit 1; fi
git apply "$src/seed/patch.diff" || { echo "patch does not apply"; exit 1; }
echo "-- demo with the change (must fail)"
if run_demo; then echo "   PASSES with the change (not a demonstration)"; exit 1; else echo "   fails"; fi
echo "-- existing suite with the change (must pass)"
for d in $demos; do rm -rf "$wt/$d"; done
if go build ./... && go test -vet=off -count=1 ./... >/tmp/confirm_$name.log 2>&1 && (cd cmd/participle && go build ./... ); then echo "   passes"; else echo "   existing suite FAILS with the change"; tail -8 /tmp/confirm_$name.log; exit 1; fi
out=/verif/seeded/$prop-${SEED_AS:-$name}
mkdir -p "$out/demo"
cp "$src/seed/patch.diff" "$out/patch.diff"
for d in $demos; do mkdir -p "$out/demo/$(dirname $d)"; if [ -d "$src/$d" ]; then cp -r "$src/$d" "$out/demo/$d"; else cp "$src/$d" "$out/demo/$d.txt"; fi; done
[ -f "$src/seed/README.md" ] && cp "$src/seed/README.md" "$out/README.md"
python3 - "$out" "$prop" "$needs" "$demos" <<'PY'
import json,sys
out,prop,needs,demos=sys.argv[1:5]
json.dump({"property":prop,"breaks":prop,"needs_to_manifest":needs,"demo_files":demos.split(),
 "confirmed":"fresh worktree of /repo HEAD: demo passes without the change, fails with it; unedited existing suite (go test ./... in the root module, go build in cmd/participle) passes with it",
 "checks_run":[], "caught_by":[]}, open(out+"/meta.json","w"), indent=1)
PY
echo "stored in $out"
