#!/bin/bash
# Runs every registered quick (or $1 = thorough) check in sequence; prints the summary line of each.
cd "$(dirname "$0")/.."
tier=${1:-quick}
for p in C01 C02 C03 C04 C05 C06 C07 C08 C09 C10 C11 C12 C13 C14 C15 C16 C17 C18 C19; do
  out=$(./check $p --tier $tier 2>&1); rc=$?
  echo "$p exit=$rc $(echo "$out" | grep -c '^VIOLATION') violations, $(echo "$out" | grep -c '^INCONCLUSIVE') inconclusive :: $(echo "$out" | tail -1)"
done
