#!/bin/bash
# usage: tryseed_wt.sh <seed-dir-name> <PROP> [VERIF_ONLY regex]  — scratch worktree run of one check
V=/verif; n=$1; p=$2; only=${3:-}
W=$(mktemp -d /tmp/tryseed.XXXXXX)
git -C /repo worktree add -q --detach "$W/repo" HEAD || exit 2
trap 'git -C /repo worktree remove --force "$W/repo"; git -C /repo worktree prune; rm -rf "$W"' EXIT
git -C "$W/repo" apply "$V/seeded/$n/patch.diff" || { echo APPLY-FAILED; exit 2; }
VERIF_ONLY="$only" VERIF_REPO="$W/repo" VERIF_OUT="$W/out" "$V/check" $p 2>&1 | grep -v "^  inputs" | cut -c1-${CUTN:-400} | tail -${TAILN:-6}
