#!/bin/bash
# Runs the given checks (default: the ones with the most solver-decided obligations)
# with z3 4.8.12, z3 5.1.0 (z3-new) and cvc5 in a scratch output directory and prints the
# summary lines side by side: path counts, ok paths, obligations and verdicts must agree.
cd "$(dirname "$0")/.."
props=${*:-C12 C04 C18}
out=$(mktemp -d /tmp/solverdiff.XXXXXX)
trap 'rm -rf "$out"' EXIT
for p in $props; do
  for s in z3 z3-new cvc5; do
    line=$(VERIF_SOLVER=$s VERIF_OUT=$out ./check $p 2>&1 | tail -1)
    echo "$p $s :: $line"
  done
done
