// gosym: symbolic execution of Go SSA with an SMT solver, for in-package
// harness functions injected into /repo by overlay.
package main

import (
	"encoding/json"
	"flag"
	"fmt"
	"go/types"
	"os"
	"regexp"
	"sort"
	"strings"
	"time"

	"golang.org/x/tools/go/packages"
	"golang.org/x/tools/go/ssa"
	"golang.org/x/tools/go/ssa/ssautil"

	"verif/gosym/interp"
)

type overlayFile struct {
	Replace map[string]string `json:"Replace"`
}

func main() {
	var (
		dir        = flag.String("dir", "/repo", "module directory to load")
		pkgPat     = flag.String("pkg", ".", "package pattern holding the harnesses")
		overlay    = flag.String("overlay", "", "go build -overlay style JSON file")
		harnessRe  = flag.String("harness", "^VH_", "regexp selecting harness functions")
		workers    = flag.Int("workers", 0, "parallel workers (0 = NumCPU)")
		maxSteps   = flag.Int64("max-steps", 5_000_000, "instruction budget per path")
		maxPaths   = flag.Int64("max-paths", 0, "stop after this many paths (0 = unlimited)")
		samples    = flag.Int("samples", 8, "ok-paths to keep with witness inputs")
		timeout    = flag.Duration("timeout", 0, "wall-clock limit per harness")
		solverName = flag.String("solver", "z3", "z3 | z3-new | cvc5")
		solverMs   = flag.Int("solver-timeout-ms", 60000, "per-query solver timeout")
		out        = flag.String("out", "", "write results JSON here (default stdout)")
		trace      = flag.Bool("trace", false, "trace instructions")
		keepPC     = flag.Bool("pc", false, "keep path conditions in records")
		solverLog  = flag.String("solver-log", "", "SMT transcript of worker 0")
		list       = flag.Bool("list", false, "list harnesses and exit")
		execPkgs   = flag.String("exec-pkgs", "", "comma-separated extra packages whose bodies/inits may run")
		maxViol    = flag.Int("max-violations", 20, "violating paths to keep per harness")
		noFast     = flag.Bool("no-fast-path", false, "send every decision to the solver (disable the byte-domain fast path)")
		crossCheck = flag.Int("cross-check", 50, "cross-check every n-th fast-path verdict with the solver (0 = never)")
	)
	flag.Parse()

	cfg := &packages.Config{
		Mode: packages.NeedName | packages.NeedFiles | packages.NeedCompiledGoFiles | packages.NeedImports |
			packages.NeedDeps | packages.NeedTypes | packages.NeedSyntax | packages.NeedTypesInfo |
			packages.NeedTypesSizes | packages.NeedModule,
		Dir: *dir,
		Env: append(os.Environ(), "GOFLAGS=-mod=mod", "GOPROXY=off", "GOSUMDB=off", "GOTOOLCHAIN=local"),
	}
	if *overlay != "" {
		data, err := os.ReadFile(*overlay)
		if err != nil {
			fatal("overlay: %v", err)
		}
		var ov overlayFile
		if err := json.Unmarshal(data, &ov); err != nil {
			fatal("overlay: %v", err)
		}
		cfg.Overlay = map[string][]byte{}
		for virt, real := range ov.Replace {
			b, err := os.ReadFile(real)
			if err != nil {
				fatal("overlay: %v", err)
			}
			cfg.Overlay[virt] = b
		}
	}
	t0 := time.Now()
	initial, err := packages.Load(cfg, *pkgPat)
	if err != nil {
		fatal("load: %v", err)
	}
	nerr := 0
	packages.Visit(initial, nil, func(p *packages.Package) {
		for _, e := range p.Errors {
			fmt.Fprintf(os.Stderr, "load error: %s: %v\n", p.PkgPath, e)
			nerr++
		}
	})
	if nerr > 0 {
		fatal("packages contain errors")
	}
	prog, pkgs := ssautil.AllPackages(initial, ssa.InstantiateGenerics|ssa.SanityCheckFunctions&0)
	prog.Build()
	loadS := time.Since(t0).Seconds()
	if len(pkgs) == 0 || pkgs[0] == nil {
		fatal("no package")
	}
	main := pkgs[0]
	re := regexp.MustCompile(*harnessRe)
	var names []string
	for name, m := range main.Members {
		if fn, ok := m.(*ssa.Function); ok && strings.HasPrefix(name, "VH_") && re.MatchString(name) {
			sig := fn.Signature
			if sig.Params().Len() == 0 && sig.Results().Len() == 0 {
				names = append(names, name)
			}
		}
	}
	sort.Strings(names)
	if *list {
		for _, n := range names {
			fmt.Println(n)
		}
		return
	}
	if len(names) == 0 {
		fatal("no harness matches %q in %s", *harnessRe, main.Pkg.Path())
	}
	var spec interp.SolverSpec
	switch *solverName {
	case "z3":
		spec = interp.SolverZ3
	case "z3-new":
		spec = interp.SolverZ3New
	case "cvc5":
		spec = interp.SolverCVC5
	default:
		fatal("unknown solver %s", *solverName)
	}
	sizes := initial[0].TypesSizes
	if sizes == nil {
		sizes = types.SizesFor("gc", "amd64")
	}
	type output struct {
		Package  string           `json:"package"`
		LoadS    float64          `json:"load_s"`
		Solver   string           `json:"solver"`
		Results  []*interp.Result `json:"results"`
		MaxSteps int64            `json:"max_steps"`
	}
	o := output{Package: main.Pkg.Path(), LoadS: loadS, Solver: *solverName, MaxSteps: *maxSteps}
	for _, n := range names {
		c := interp.Config{
			Workers: *workers, Solver: spec, SolverTimeout: *solverMs, MaxSteps: *maxSteps, MaxPaths: *maxPaths,
			SamplePaths: *samples, KeepPC: *keepPC, Trace: *trace, SolverLog: *solverLog, MaxViolations: *maxViol,
			NoFastPath: *noFast, CrossCheckEvery: *crossCheck,
		}
		if *execPkgs != "" {
			c.InitWhitelist = strings.Split(*execPkgs, ",")
		}
		if *timeout > 0 {
			c.Deadline = time.Now().Add(*timeout)
		}
		r := interp.Explore(main, main.Func(n), sizes, c)
		fmt.Fprintf(os.Stderr, "%-40s paths=%d ok=%d viol=%d inconcl=%d queries=%d wall=%.1fs exhaustive=%v %s\n",
			n, r.Paths, r.OkPaths, len(r.Violations), len(r.Inconclusive), r.Queries, r.WallSeconds, r.Exhaustive, r.StopReason)
		o.Results = append(o.Results, r)
	}
	enc, _ := json.MarshalIndent(o, "", " ")
	if *out == "" {
		os.Stdout.Write(enc)
		fmt.Println()
	} else if err := os.WriteFile(*out, enc, 0o644); err != nil {
		fatal("write: %v", err)
	}
}

func fatal(format string, args ...interface{}) {
	fmt.Fprintf(os.Stderr, "gosym: "+format+"\n", args...)
	os.Exit(3)
}
