// Copyright 2013 The Go Authors. All rights reserved.
// Use of this source code is governed by a BSD-style
// license that can be found in the LICENSE file.

package interp

// Emulated functions that we cannot interpret because they are
// external or because they use "unsafe" or "reflect" operations.

import (
	"math"
)

type externalFn func(fr *frame, args []value) value

// Key strings are from Function.String().
var externals = make(map[string]externalFn)

func init() {
	// That little dot ۰ is an Arabic zero numeral (U+06F0), categories [Nd].
	for k, v := range map[string]externalFn{
		"(reflect.Value).Bool":          ext۰reflect۰Value۰Bool,
		"(reflect.Value).CanAddr":       ext۰reflect۰Value۰CanAddr,
		"(reflect.Value).CanSet":        ext۰reflect۰Value۰CanSet,
		"(reflect.Value).CanInterface":  ext۰reflect۰Value۰CanInterface,
		"(reflect.Value).Addr":          ext۰reflect۰Value۰Addr,
		"(reflect.Value).Elem":          ext۰reflect۰Value۰Elem,
		"(reflect.Value).Field":         ext۰reflect۰Value۰Field,
		"(reflect.Value).FieldByIndex":  ext۰reflect۰Value۰FieldByIndex,
		"(reflect.Value).FieldByName":   ext۰reflect۰Value۰FieldByName,
		"(reflect.Value).Float":         ext۰reflect۰Value۰Float,
		"(reflect.Value).Index":         ext۰reflect۰Value۰Index,
		"(reflect.Value).Int":           ext۰reflect۰Value۰Int,
		"(reflect.Value).Interface":     ext۰reflect۰Value۰Interface,
		"(reflect.Value).IsNil":         ext۰reflect۰Value۰IsNil,
		"(reflect.Value).IsValid":       ext۰reflect۰Value۰IsValid,
		"(reflect.Value).IsZero":        ext۰reflect۰Value۰IsZero,
		"(reflect.Value).Kind":          ext۰reflect۰Value۰Kind,
		"(reflect.Value).Len":           ext۰reflect۰Value۰Len,
		"(reflect.Value).MapIndex":      ext۰reflect۰Value۰MapIndex,
		"(reflect.Value).Cap":           ext۰reflect۰Value۰Cap,
		"(reflect.Value).Grow":          ext۰reflect۰Value۰Grow,
		"(reflect.Value).SetLen":        ext۰reflect۰Value۰SetLen,
		"(reflect.Value).SetZero":       ext۰reflect۰Value۰SetZero,
		"(reflect.Value).MapKeys":       ext۰reflect۰Value۰MapKeys,
		"(reflect.Value).MapRange":      ext۰reflect۰Value۰MapRange,
		"(reflect.Value).SetMapIndex":   ext۰reflect۰Value۰SetMapIndex,
		"(*reflect.MapIter).Next":       ext۰reflect۰MapIter۰Next,
		"(*reflect.MapIter).Key":        ext۰reflect۰MapIter۰Key,
		"(*reflect.MapIter).Value":      ext۰reflect۰MapIter۰Value,
		"(reflect.Value).NumField":      ext۰reflect۰Value۰NumField,
		"(reflect.Value).NumMethod":     ext۰reflect۰Value۰NumMethod,
		"(reflect.Value).Pointer":       ext۰reflect۰Value۰Pointer,
		"(reflect.Value).UnsafeAddr":    ext۰reflect۰Value۰UnsafeAddr,
		"(reflect.Value).Set":           ext۰reflect۰Value۰Set,
		"(reflect.Value).SetInt":        ext۰reflect۰Value۰SetInt,
		"(reflect.Value).SetUint":       ext۰reflect۰Value۰SetUint,
		"(reflect.Value).SetFloat":      ext۰reflect۰Value۰SetFloat,
		"(reflect.Value).SetString":     ext۰reflect۰Value۰SetString,
		"(reflect.Value).SetBool":       ext۰reflect۰Value۰SetBool,
		"(reflect.Value).Convert":       ext۰reflect۰Value۰Convert,
		"(reflect.Value).Call":          ext۰reflect۰Value۰Call,
		"(reflect.Value).String":        ext۰reflect۰Value۰String,
		"(reflect.Value).Type":          ext۰reflect۰Value۰Type,
		"(reflect.Value).Uint":          ext۰reflect۰Value۰Uint,
		"(reflect.error).Error":         ext۰reflect۰error۰Error,
		"(reflect.rtype).Bits":          ext۰reflect۰rtype۰Bits,
		"(reflect.rtype).Elem":          ext۰reflect۰rtype۰Elem,
		"(reflect.rtype).Key":           ext۰reflect۰rtype۰Key,
		"(reflect.rtype).Len":           ext۰reflect۰rtype۰Len,
		"(reflect.rtype).Field":         ext۰reflect۰rtype۰Field,
		"(reflect.rtype).FieldByIndex":  ext۰reflect۰rtype۰FieldByIndex,
		"(reflect.rtype).FieldByName":   ext۰reflect۰rtype۰FieldByName,
		"(reflect.rtype).In":            ext۰reflect۰rtype۰In,
		"(reflect.rtype).Kind":          ext۰reflect۰rtype۰Kind,
		"(reflect.rtype).Name":          ext۰reflect۰rtype۰Name,
		"(reflect.rtype).PkgPath":       ext۰reflect۰rtype۰PkgPath,
		"(reflect.rtype).NumField":      ext۰reflect۰rtype۰NumField,
		"(reflect.rtype).NumIn":         ext۰reflect۰rtype۰NumIn,
		"(reflect.rtype).NumMethod":     ext۰reflect۰rtype۰NumMethod,
		"(reflect.rtype).NumOut":        ext۰reflect۰rtype۰NumOut,
		"(reflect.rtype).Out":           ext۰reflect۰rtype۰Out,
		"(reflect.rtype).Size":          ext۰reflect۰rtype۰Size,
		"(reflect.rtype).String":        ext۰reflect۰rtype۰String,
		"(reflect.rtype).Implements":    ext۰reflect۰rtype۰Implements,
		"(reflect.rtype).ConvertibleTo": ext۰reflect۰rtype۰ConvertibleTo,
		"(reflect.rtype).AssignableTo":  ext۰reflect۰rtype۰AssignableTo,
		"(reflect.rtype).Comparable":    ext۰reflect۰rtype۰Comparable,
		"reflect.New":                   ext۰reflect۰New,
		"reflect.SliceOf":               ext۰reflect۰SliceOf,
		"reflect.PtrTo":                 ext۰reflect۰PtrTo,
		"reflect.PointerTo":             ext۰reflect۰PtrTo,
		"reflect.TypeOf":                ext۰reflect۰TypeOf,
		"reflect.ValueOf":               ext۰reflect۰ValueOf,
		"reflect.Zero":                  ext۰reflect۰Zero,
		"reflect.Indirect":              ext۰reflect۰Indirect,
		"reflect.Append":                ext۰reflect۰Append,
		"reflect.AppendSlice":           ext۰reflect۰AppendSlice,
		"reflect.MakeSlice":             ext۰reflect۰MakeSlice,
		"reflect.MakeMap":               ext۰reflect۰MakeMap,
		"reflect.MakeMapWithSize":       ext۰reflect۰MakeMap,
		"reflect.StructOf":              ext۰reflect۰StructOf,
		"math.Float32bits":              func(fr *frame, a []value) value { return math.Float32bits(a[0].(float32)) },
		"math.Float32frombits":          func(fr *frame, a []value) value { return math.Float32frombits(a[0].(uint32)) },
		"math.Float64bits":              func(fr *frame, a []value) value { return math.Float64bits(a[0].(float64)) },
		"math.Float64frombits":          func(fr *frame, a []value) value { return math.Float64frombits(a[0].(uint64)) },
		"math.Abs":                      func(fr *frame, a []value) value { return math.Abs(a[0].(float64)) },
		"math.Inf":                      func(fr *frame, a []value) value { return math.Inf(a[0].(int)) },
		"math.IsNaN":                    func(fr *frame, a []value) value { return math.IsNaN(a[0].(float64)) },
		"math.IsInf":                    func(fr *frame, a []value) value { return math.IsInf(a[0].(float64), a[1].(int)) },
		"math.NaN":                      func(fr *frame, a []value) value { return math.NaN() },
	} {
		externals[k] = v
	}
	registerModels()
}
