package interp

// Path exploration: a path is the vector of outcomes at symbolic decision
// points.  A worker re-executes the harness from the start following a
// decision prefix, then extends it; at every new decision the solver is asked
// which outcomes are feasible, the alternative is queued.

import (
	"fmt"
	"go/types"
	"sort"
	"strings"
)

type abortKind int

const (
	abortInfeasible  abortKind = iota // path condition became unsatisfiable (vAssume)
	abortUnsupported                  // construct outside the executor's coverage
	abortBudget                       // instruction / loop budget hit (unwinding failure)
	abortSolver                       // solver said unknown / error / timeout
	abortInternal                     // executor bug (Go runtime error inside the engine)
	abortAssertFail                   // vAssert false side: path ends, reported as violation candidate
	abortStopped                      // engine shutting down
)

func (k abortKind) String() string {
	return [...]string{"infeasible", "unsupported", "budget", "solver", "internal", "assert", "stopped"}[k]
}

// pathAbort is the Go panic value that ends the current path.  It is never
// visible to the target program's recover().
type pathAbort struct {
	kind  abortKind
	msg   string
	where string
}

func unsupported(msg string) pathAbort { return pathAbort{kind: abortUnsupported, msg: msg} }

// VarInfo describes one symbolic input created by a harness intrinsic.
type VarInfo struct {
	Name string `json:"name"` // SMT name
	Kind string `json:"kind"` // int, int64, byte, bool, string, choose, rune
	Tag  string `json:"tag"`
	W    uint8  `json:"w"`
	N    int    `json:"n,omitempty"` // string: number of bytes; choose: arity
}

type observation struct {
	tag  string
	vals []value
}

// dec is one recorded decision: a branch outcome, optionally with the
// constant that a concretisation step compared against (so that replay uses
// the same candidate whatever model the solver returns).
type dec struct {
	b    bool
	pick bool
	c    uint64
}

type workItem struct {
	prefix []dec
	model  model
}

type pathState struct {
	prefix    []dec
	depth     int
	trail     []dec
	known     map[uint64][]knownLit // literals asserted on this path
	model     model                 // satisfies the current path condition (nil if unknown)
	vars      []VarInfo
	varTerm   []*term
	inputs    []inputRec // intrinsic calls in order
	obs       []observation
	reach     []string
	steps     int64
	pcStr     []string
	nDecide   int // decisions that needed the solver on this path
	em        smtEmitter
	dom       map[string]*byteSet
	entangled map[string]bool
	fastPath  int64 // decisions settled by the byte-domain fast path
	termLimit int64
	termMsg   string
	addrIDs   map[*value]uintptr // reflect.Value.UnsafeAddr identities
	asserts   int64
	trackPoss bool
	possDiff  bool
	syncMaps  map[*value]*omap
	pools     map[*value][]value // sync.Pool contents (LIFO)
	ufCalls   []ufCall
	// obligations
	oblChecked    int // assertion / safety sites whose bad side was queried
	oblDischarged int // ... and came back unsat
}

type knownLit struct {
	t   *term
	val bool
}

func (ps *pathState) lookupKnown(c *term) (bool, bool) {
	neg := false
	for c.op == opNot {
		c = c.a
		neg = !neg
	}
	for _, k := range ps.known[c.h] {
		if termEq(k.t, c) {
			return k.val != neg, true
		}
	}
	return false, false
}

func (ps *pathState) recordKnown(c *term, val bool) {
	for c.op == opNot {
		c = c.a
		val = !val
	}
	if ps.known == nil {
		ps.known = map[uint64][]knownLit{}
	}
	ps.known[c.h] = append(ps.known[c.h], knownLit{c, val})
	// a conjunction that holds makes both conjuncts hold; a disjunction that
	// fails makes both disjuncts fail
	if val && c.op == opBAnd {
		ps.recordKnown(c.a, true)
		ps.recordKnown(c.b, true)
	}
	if !val && c.op == opBOr {
		ps.recordKnown(c.a, false)
		ps.recordKnown(c.b, false)
	}
}

// inputRec records one intrinsic call: either a set of SMT vars or a concrete value.
type inputRec struct {
	Kind  string
	Tag   string
	Terms []*term // for int/bool/byte: 1 term; for string: n terms
	N     int
}

func (i *interpreter) newVar(w uint8) *term {
	ps := i.ps
	name := fmt.Sprintf("v%d", len(ps.varTerm))
	t := mkVar(name, w)
	ps.varTerm = append(ps.varTerm, t)
	i.sol.send(fmt.Sprintf("(declare-const %s %s)\n", name, sortOf(w)))
	return t
}

func (i *interpreter) assertTerm(c *term) {
	if c.isTrue() {
		return
	}
	ps := i.ps
	ps.noteAssertedTop(c)
	ps.em.sb.Reset()
	ref := ps.em.ref(c)
	ps.em.sb.WriteString("(assert " + ref + ")\n")
	i.sol.send(ps.em.sb.String())
	ps.em.sb.Reset()
	if i.eng.cfg.KeepPC {
		ps.pcStr = append(ps.pcStr, c.String())
	}
}

func (i *interpreter) varNames() []string {
	names := make([]string, len(i.ps.varTerm))
	for j, t := range i.ps.varTerm {
		names[j] = t.name
	}
	return names
}

// query checks PC ∧ c.  On sat it returns a model.
func (i *interpreter) query(c *term) (satResult, model) {
	ps := i.ps
	ps.em.sb.Reset()
	// Definitions made inside the push scope vanish at pop: remember the
	// emitter id watermark and undo the ids afterwards.
	i.sol.send("(push 1)\n")
	mark := ps.em.nextID
	var defined []*term
	ref := i.refTracking(c, &defined)
	ps.em.sb.WriteString("(assert " + ref + ")\n")
	i.sol.send(ps.em.sb.String())
	ps.em.sb.Reset()
	res := i.sol.checkSat()
	var m model
	if res == resSat {
		var err error
		m, err = i.sol.getValues(i.varNames())
		if err != nil {
			res = resUnknown
		}
	}
	i.sol.send("(pop 1)\n")
	for _, t := range defined {
		t.id = 0
	}
	ps.em.nextID = mark
	return res, m
}

// refTracking is smtEmitter.ref but records which terms got an id so that
// the ids can be rolled back after a pop.
func (i *interpreter) refTracking(t *term, defined *[]*term) string {
	em := &i.ps.em
	var walk func(t *term)
	walk = func(t *term) {
		if t == nil || t.op == opConst || t.op == opVar || t.id > 0 {
			return
		}
		walk(t.a)
		walk(t.b)
		walk(t.c)
		em.ref(t)
		*defined = append(*defined, t)
	}
	walk(t)
	return em.ref(t)
}

func (i *interpreter) evalUnderModel(c *term) (uint64, bool) {
	if i.ps.model == nil {
		return 0, false
	}
	return c.eval(i.ps.model, map[*term]uint64{}), true
}

// decide returns the outcome of a symbolic branch on c, forking if both
// outcomes are feasible.
func (i *interpreter) decide(c *term) bool {
	return i.decideRec(c, false, 0)
}

func (i *interpreter) decideRec(c *term, pick bool, pickC uint64) bool {
	if c.isConst() {
		return c.k == 1
	}
	if c.w != 0 {
		panic("decide: not a bool term")
	}
	ps := i.ps
	i.lastBoth = false
	if v, ok := ps.lookupKnown(c); ok {
		return v
	}
	if ps.depth < len(ps.prefix) {
		d := ps.prefix[ps.depth]
		ps.depth++
		ps.trail = append(ps.trail, d)
		i.take(c, d.b)
		if ps.depth == len(ps.prefix) && i.pendingModel != nil {
			ps.model = i.pendingModel
			i.pendingModel = nil
		}
		return d.b
	}
	if i.eng.stopped() {
		panic(pathAbort{kind: abortStopped, msg: "engine stopped"})
	}
	ps.nDecide++
	var satT, satF satResult = -1, -1
	var mT, mF model
	// Byte-domain fast path (see domain.go).
	if v, ok := singleSmallVar(c); ok && !i.eng.cfg.NoFastPath {
		T, F := ps.splitDomain(v, c)
		forced := T.empty() || F.empty()
		if forced || !ps.entangled[v.name] {
			if ps.model == nil && !(T.empty() && F.empty()) {
				if res, m := i.query(termTrue); res == resSat {
					ps.model = m
				}
			}
			if ps.model != nil || (T.empty() && F.empty()) {
				if T.empty() {
					satT = resUnsat
				} else if !ps.entangled[v.name] {
					satT, mT = resSat, patchModel(ps.model, v.name, uint64(T.first()))
				}
				if F.empty() {
					satF = resUnsat
				} else if !ps.entangled[v.name] {
					satF, mF = resSat, patchModel(ps.model, v.name, uint64(F.first()))
				}
				if satT >= 0 && satF >= 0 {
					ps.fastPath++
					if n := i.eng.cfg.CrossCheckEvery; n > 0 && ps.fastPath%int64(n) == 0 {
						rT, _ := i.query(c)
						rF, _ := i.query(mkNot(c))
						if rT != satT || rF != satF {
							panic(pathAbort{kind: abortInternal, msg: "byte-domain fast path disagrees with the solver on " + c.String()})
						}
					}
				}
			}
		}
	}
	// Use the cached model to settle one side for free.
	if v, ok := i.evalUnderModel(c); ok && (satT < 0 || satF < 0) {
		if v == 1 && satT < 0 {
			satT, mT = resSat, ps.model
		} else if v == 0 && satF < 0 {
			satF, mF = resSat, ps.model
		}
	}
	if satT < 0 {
		satT, mT = i.query(c)
	}
	if satF < 0 {
		satF, mF = i.query(mkNot(c))
	}
	if satT == resUnknown || satF == resUnknown {
		panic(pathAbort{kind: abortSolver, msg: "solver returned unknown for branch condition " + c.String()})
	}
	var d bool
	switch {
	case satT == resSat && satF == resSat:
		i.lastBoth = true
		alt := make([]dec, len(ps.trail)+1)
		copy(alt, ps.trail)
		alt[len(ps.trail)] = dec{b: false, pick: pick, c: pickC}
		i.eng.push(workItem{prefix: alt, model: mF})
		d = true
		ps.model = mT
	case satT == resSat:
		d = true
		ps.model = mT
	case satF == resSat:
		d = false
		ps.model = mF
	default:
		panic(pathAbort{kind: abortInfeasible, msg: "path condition unsatisfiable"})
	}
	ps.depth++
	e := dec{b: d, pick: pick, c: pickC}
	ps.prefix = append(ps.prefix, e) // keep prefix == trail so depth stays consistent
	ps.trail = append(ps.trail, e)
	i.take(c, d)
	return d
}

func (i *interpreter) take(c *term, d bool) {
	if d {
		i.assertTerm(c)
	} else {
		i.assertTerm(mkNot(c))
	}
	i.ps.recordKnown(c, d)
}

// obligation is decide() for a condition that is expected to hold (an
// assertion or an implicit safety check): it additionally counts whether the
// bad side was discharged.
func (i *interpreter) obligation(c *term) bool {
	if c.isConst() {
		return c.k == 1
	}
	ps := i.ps
	replaying := ps.depth < len(ps.prefix)
	before := ps.nDecide
	d := i.decide(c)
	if !replaying && ps.nDecide > before {
		i.eng.countObligation(d && !i.lastBoth)
	}
	return d
}

func b2u(b bool) byte {
	if b {
		return 1
	}
	return 0
}

// concretize forks until the integer value v has a single concrete value and
// returns it.  cands, if non-nil, are tried first (deterministic order);
// further candidates come from solver models and are recorded in the trail so
// that a replay compares against the same constants.
func (i *interpreter) concretize(v value, cands []int64) int64 {
	s, ok := v.(sym)
	if !ok {
		return asInt64(v)
	}
	w := s.t.w
	ret := func(c uint64) int64 {
		if kindSigned(s.k) {
			return signExt(c, w)
		}
		return int64(c & mask(w))
	}
	for _, c := range cands {
		if i.decide(mkPred(opEq, s.t, mkConst(uint64(c), w))) {
			return ret(uint64(c))
		}
	}
	ps := i.ps
	for n := 0; ; n++ {
		if n > i.eng.cfg.MaxConcretize {
			panic(pathAbort{kind: abortBudget, msg: "concretisation fan-out exceeds bound"})
		}
		var c uint64
		if ps.depth < len(ps.prefix) {
			d := ps.prefix[ps.depth]
			if !d.pick {
				panic(pathAbort{kind: abortInternal, msg: "replay divergence: expected a recorded pick"})
			}
			c = d.c
		} else if val, ok := i.evalUnderModel(s.t); ok {
			c = val
		} else {
			res, m := i.query(termTrue)
			if res != resSat {
				panic(pathAbort{kind: abortSolver, msg: "no model for concretisation"})
			}
			ps.model = m
			c = s.t.eval(m, map[*term]uint64{})
		}
		cond := mkPred(opEq, s.t, mkConst(c, w))
		if known, ok := ps.lookupKnown(cond); ok && !known {
			// already excluded on this path: need a fresh model
			res, m := i.query(termTrue)
			if res != resSat {
				panic(pathAbort{kind: abortSolver, msg: "no model for concretisation"})
			}
			ps.model = m
			continue
		}
		if i.decideRec(cond, true, c) {
			return ret(c)
		}
	}
}

// concretizeIndex resolves index idx for an object of length n: it raises the
// Go runtime panic on the out-of-range side and returns a concrete in-range
// index otherwise.
func (i *interpreter) concretizeIndex(idx value, n int, what string) int {
	s, ok := idx.(sym)
	if !ok {
		x := asInt64(idx)
		if x < 0 || x >= int64(n) {
			i.throwRuntime(fmt.Sprintf("runtime error: index out of range [%d] with length %d", x, n))
		}
		return int(x)
	}
	w := s.t.w
	inRange := indexInRangeTerm(s, n)
	if !i.obligation(inRange) {
		i.throwRuntime(fmt.Sprintf("runtime error: index out of range [symbolic] with length %d", n))
	}
	_ = w
	cands := make([]int64, n)
	for j := range cands {
		cands[j] = int64(j)
	}
	return int(i.concretize(idx, cands))
}

// indexInRangeTerm is the condition 0 <= idx < n for an index of idx's width.
func indexInRangeTerm(s sym, n int) *term {
	w := s.t.w
	if kindSigned(s.k) {
		upper := termTrue
		if w >= 64 || uint64(n) <= mask(w)>>1 {
			upper = mkPred(opSLt, s.t, mkConst(uint64(n), w))
		}
		return mkAnd(mkPred(opSLe, mkConst(0, w), s.t), upper)
	}
	if w < 64 && uint64(n) > mask(w) {
		return termTrue
	}
	return mkPred(opULt, s.t, mkConst(uint64(n), w))
}

// ---------------------------------------------------------------------
// Harness intrinsics

func (i *interpreter) intrinsicVar(kind, tag string, w uint8, k types.BasicKind) value {
	t := i.newVar(w)
	i.ps.vars = append(i.ps.vars, VarInfo{Name: t.name, Kind: kind, Tag: tag, W: w})
	i.ps.inputs = append(i.ps.inputs, inputRec{Kind: kind, Tag: tag, Terms: []*term{t}})
	return sym{t, k}
}

func (i *interpreter) intrinsicString(tag string, n int) value {
	b := make([]value, n)
	rec := inputRec{Kind: "string", Tag: tag, N: n}
	for j := 0; j < n; j++ {
		t := i.newVar(8)
		i.ps.vars = append(i.ps.vars, VarInfo{Name: t.name, Kind: "strbyte", Tag: tag, W: 8})
		rec.Terms = append(rec.Terms, t)
		b[j] = sym{t, types.Uint8}
	}
	i.ps.inputs = append(i.ps.inputs, rec)
	if n == 0 {
		return ""
	}
	return symstr{b}
}

func (i *interpreter) intrinsicChoose(tag string, n int) value {
	if n <= 0 {
		panic(unsupported("vChoose with n <= 0"))
	}
	t := i.newVar(64)
	i.ps.vars = append(i.ps.vars, VarInfo{Name: t.name, Kind: "choose", Tag: tag, W: 64, N: n})
	i.ps.inputs = append(i.ps.inputs, inputRec{Kind: "choose", Tag: tag, Terms: []*term{t}, N: n})
	i.assertTerm(mkPred(opULt, t, mkConst(uint64(n), 64)))
	// (a cached model stays valid: the fresh variable evaluates to 0 < n)
	for c := 0; c < n-1; c++ {
		if i.decide(mkPred(opEq, t, mkConst(uint64(c), 64))) {
			return c
		}
	}
	// remaining value
	i.assertTerm(mkPred(opEq, t, mkConst(uint64(n-1), 64)))
	if i.ps.model != nil {
		m := make(model, len(i.ps.model)+1)
		for k, v := range i.ps.model {
			m[k] = v
		}
		m[t.name] = uint64(n - 1)
		i.ps.model = m
	}
	return n - 1
}

func (i *interpreter) intrinsicAssume(c value) {
	switch c := c.(type) {
	case bool:
		if !c {
			panic(pathAbort{kind: abortInfeasible, msg: "vAssume(false)"})
		}
	case sym:
		// The assumption is a constraint, not a fork.
		if v, ok := i.evalUnderModel(c.t); ok && v == 1 {
			i.assertTerm(c.t)
			return
		}
		if i.ps.depth < len(i.ps.prefix) {
			// replaying: feasibility was established when the prefix was created
			i.assertTerm(c.t)
			i.ps.model = nil
			return
		}
		res, m := i.query(c.t)
		switch res {
		case resSat:
			i.assertTerm(c.t)
			i.ps.model = m
		case resUnsat:
			panic(pathAbort{kind: abortInfeasible, msg: "vAssume unsatisfiable"})
		default:
			panic(pathAbort{kind: abortSolver, msg: "solver unknown on vAssume"})
		}
	}
}

func (i *interpreter) intrinsicAssert(c value, msg string) {
	i.ps.asserts++
	t := termOf(c)
	if !i.obligation(t) {
		panic(pathAbort{kind: abortAssertFail, msg: msg})
	}
}

// modelInputs renders the intrinsic inputs of the finished path under model m.
func (ps *pathState) modelInputs(m model) []ReplayValue {
	out := make([]ReplayValue, 0, len(ps.inputs))
	memo := map[*term]uint64{}
	for _, in := range ps.inputs {
		rv := ReplayValue{Kind: in.Kind, Tag: in.Tag}
		switch in.Kind {
		case "string":
			bs := make([]byte, len(in.Terms))
			for j, t := range in.Terms {
				bs[j] = byte(t.eval(m, memo))
			}
			rv.Bytes = bs
		case "uf":
			rv.Int = int64(in.Terms[0].eval(m, memo))
			rv.Aux = int64(in.Terms[1].eval(m, memo))
		default:
			rv.Int = int64(in.Terms[0].eval(m, memo))
		}
		out = append(out, rv)
	}
	return out
}

// ReplayValue is one concrete intrinsic result for native replay.
type ReplayValue struct {
	Kind  string `json:"kind"`
	Tag   string `json:"tag"`
	Int   int64  `json:"int"`
	Aux   int64  `json:"aux,omitempty"` // uf: the ok flag
	Bytes []byte `json:"bytes,omitempty"`
}

// renderValue gives a deterministic textual form of an interpreter value
// under a model, used to compare observation traces with native replays.
func renderValue(v value, m model, memo map[*term]uint64) string {
	switch v := v.(type) {
	case sym:
		x := v.t.eval(m, memo)
		if v.k == types.Bool {
			if x != 0 {
				return "true"
			}
			return "false"
		}
		if kindSigned(v.k) {
			return fmt.Sprintf("%d", signExt(x, v.t.w))
		}
		return fmt.Sprintf("%d", x)
	case symstr:
		bs := make([]byte, len(v.b))
		for j, b := range v.b {
			if c, ok := b.(uint8); ok {
				bs[j] = c
			} else {
				bs[j] = byte(b.(sym).t.eval(m, memo))
			}
		}
		return fmt.Sprintf("%q", string(bs))
	case string:
		return fmt.Sprintf("%q", v)
	case bool:
		return fmt.Sprintf("%v", v)
	case iface:
		if v.t == nil {
			return "<nil>"
		}
		return renderValue(v.v, m, memo)
	case structure:
		parts := make([]string, len(v))
		for j, f := range v {
			parts[j] = renderValue(f, m, memo)
		}
		return "{" + strings.Join(parts, " ") + "}"
	case array:
		parts := make([]string, len(v))
		for j, f := range v {
			parts[j] = renderValue(f, m, memo)
		}
		return "[" + strings.Join(parts, " ") + "]"
	case []value:
		parts := make([]string, len(v))
		for j, f := range v {
			parts[j] = renderValue(f, m, memo)
		}
		return "[" + strings.Join(parts, " ") + "]"
	case *value:
		if v == nil {
			return "<nil>"
		}
		return "&" + renderValue(*v, m, memo)
	}
	if _, ok := kindOf(v); ok {
		return fmt.Sprintf("%d", v)
	}
	return fmt.Sprintf("<%T>", v)
}

func sortedKeys(m map[string]int) []string {
	ks := make([]string, 0, len(m))
	for k := range m {
		ks = append(ks, k)
	}
	sort.Strings(ks)
	return ks
}

// noteAssertedTop splits top-level conjunctions so that unary conjuncts
// refine the byte domains individually.
func (ps *pathState) noteAssertedTop(c *term) {
	if c.op == opBAnd {
		ps.noteAssertedTop(c.a)
		ps.noteAssertedTop(c.b)
		return
	}
	ps.noteAsserted(c)
}
