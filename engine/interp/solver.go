package interp

// A long-lived SMT solver process spoken to over stdin/stdout (SMT-LIB2).
// One per worker.  Any "(error" line, "unknown", or timeout is surfaced as
// resUnknown so the caller can mark the run inconclusive.

import (
	"bufio"
	"fmt"
	"io"
	"os/exec"
	"strconv"
	"strings"
	"time"
)

type satResult int

const (
	resSat satResult = iota
	resUnsat
	resUnknown
)

func (r satResult) String() string {
	return [...]string{"sat", "unsat", "unknown"}[r]
}

type solverProc struct {
	name    string
	cmd     *exec.Cmd
	in      io.WriteCloser
	out     *bufio.Reader
	queries int
	satN    int
	unsatN  int
	unkN    int
	errors  []string
	elapsed time.Duration
	log     io.Writer // optional transcript
	pend    []byte    // text not yet written to the solver
	frames  []int     // offsets in pend of the "(push 1)" commands still queued
}

// SolverSpec names a solver binary and its arguments.
type SolverSpec struct {
	Name string
	Args []string
}

var (
	SolverZ3    = SolverSpec{"z3", []string{"-in", "-smt2"}}
	SolverZ3New = SolverSpec{"z3-new", []string{"-in", "-smt2"}}
	SolverCVC5  = SolverSpec{"cvc5", []string{"--incremental", "--lang=smt2", "--produce-models"}}
)

func startSolver(spec SolverSpec, timeoutMs int) (*solverProc, error) {
	cmd := exec.Command(spec.Name, spec.Args...)
	in, err := cmd.StdinPipe()
	if err != nil {
		return nil, err
	}
	out, err := cmd.StdoutPipe()
	if err != nil {
		return nil, err
	}
	cmd.Stderr = cmd.Stdout
	if err := cmd.Start(); err != nil {
		return nil, err
	}
	s := &solverProc{name: spec.Name, cmd: cmd, in: in, out: bufio.NewReaderSize(out, 1<<16)}
	if strings.HasPrefix(spec.Name, "z3") {
		s.send(fmt.Sprintf("(set-option :timeout %d)\n", timeoutMs))
	} else {
		s.send(fmt.Sprintf("(set-option :tlimit-per %d)\n", timeoutMs))
		s.send("(set-logic QF_BV)\n")
	}
	s.send("(set-option :produce-models true)\n")
	s.flush()
	return s, nil
}

// send queues text for the solver.  Nothing is written to the pipe until an
// answer is needed (flush, called by checkSat and getValues): a path whose
// decisions are all settled without the solver sends nothing at all, because a
// "(pop 1)" that meets its own still-queued "(push 1)" cancels the whole scope.
func (s *solverProc) send(text string) {
	switch text {
	case "(push 1)\n":
		s.frames = append(s.frames, len(s.pend))
	case "(pop 1)\n":
		if n := len(s.frames); n > 0 {
			s.pend = s.pend[:s.frames[n-1]]
			s.frames = s.frames[:n-1]
			return
		}
	}
	s.pend = append(s.pend, text...)
}

// flush writes the queued text to the solver.
func (s *solverProc) flush() {
	if len(s.pend) == 0 {
		s.frames = s.frames[:0]
		return
	}
	if s.log != nil {
		s.log.Write(s.pend)
	}
	if _, err := s.in.Write(s.pend); err != nil {
		s.errors = append(s.errors, "write: "+err.Error())
	}
	s.pend = s.pend[:0]
	s.frames = s.frames[:0]
}

func (s *solverProc) close() {
	if s == nil || s.cmd == nil {
		return
	}
	io.WriteString(s.in, "(exit)\n")
	s.in.Close()
	done := make(chan struct{})
	go func() { s.cmd.Wait(); close(done) }()
	select {
	case <-done:
	case <-time.After(2 * time.Second):
		s.cmd.Process.Kill()
	}
}

// checkSat issues (check-sat) and reads the verdict.
func (s *solverProc) checkSat() satResult {
	start := time.Now()
	s.queries++
	s.send("(check-sat)\n")
	s.flush()
	res := resUnknown
	sawErr := false
	for {
		line, err := s.out.ReadString('\n')
		if err != nil {
			s.errors = append(s.errors, "read: "+err.Error())
			break
		}
		line = strings.TrimSpace(line)
		if s.log != nil {
			fmt.Fprintf(s.log, "; -> %s\n", line)
		}
		if line == "" {
			continue
		}
		if strings.HasPrefix(line, "(error") {
			s.errors = append(s.errors, line)
			sawErr = true
			continue
		}
		switch line {
		case "sat":
			res = resSat
		case "unsat":
			res = resUnsat
		case "unknown", "timeout":
			res = resUnknown
		default:
			// noise (e.g. warnings); keep reading
			continue
		}
		break
	}
	if sawErr {
		res = resUnknown
	}
	switch res {
	case resSat:
		s.satN++
	case resUnsat:
		s.unsatN++
	default:
		s.unkN++
	}
	s.elapsed += time.Since(start)
	return res
}

// getValues returns the model values of the named constants (after a sat
// answer).  Bool values are 0/1.
func (s *solverProc) getValues(names []string) (model, error) {
	m := model{}
	if len(names) == 0 {
		return m, nil
	}
	start := time.Now()
	defer func() { s.elapsed += time.Since(start) }()
	s.send("(get-value (" + strings.Join(names, " ") + "))\n")
	s.flush()
	// Response: ((a #x01) (b true) ...), possibly over several lines.
	var sb strings.Builder
	depth := 0
	started := false
	for {
		line, err := s.out.ReadString('\n')
		if err != nil {
			return nil, err
		}
		if s.log != nil {
			fmt.Fprintf(s.log, "; -> %s", line)
		}
		if strings.HasPrefix(strings.TrimSpace(line), "(error") {
			s.errors = append(s.errors, strings.TrimSpace(line))
			return nil, fmt.Errorf("solver error: %s", line)
		}
		for _, c := range line {
			if c == '(' {
				depth++
				started = true
			} else if c == ')' {
				depth--
			}
		}
		sb.WriteString(line)
		if started && depth == 0 {
			break
		}
	}
	toks := tokenizeSexp(sb.String())
	// expect ( ( name val ) ( name val ) ... )
	i := 0
	next := func() string {
		if i < len(toks) {
			t := toks[i]
			i++
			return t
		}
		return ""
	}
	if next() != "(" {
		return nil, fmt.Errorf("bad get-value response: %s", sb.String())
	}
	for i < len(toks) {
		t := next()
		if t == ")" {
			break
		}
		if t != "(" {
			return nil, fmt.Errorf("bad get-value response: %s", sb.String())
		}
		name := next()
		v := next()
		var val uint64
		switch {
		case v == "true":
			val = 1
		case v == "false":
			val = 0
		case strings.HasPrefix(v, "#x"):
			val, _ = strconv.ParseUint(v[2:], 16, 64)
		case strings.HasPrefix(v, "#b"):
			val, _ = strconv.ParseUint(v[2:], 2, 64)
		case v == "(":
			// (_ bvN w)
			if next() == "_" {
				bv := next()
				next() // width
				next() // )
				val, _ = strconv.ParseUint(strings.TrimPrefix(bv, "bv"), 10, 64)
			}
		default:
			return nil, fmt.Errorf("bad value %q in %s", v, sb.String())
		}
		if next() != ")" {
			return nil, fmt.Errorf("bad get-value response: %s", sb.String())
		}
		m[name] = val
	}
	return m, nil
}

func tokenizeSexp(s string) []string {
	var toks []string
	cur := strings.Builder{}
	flush := func() {
		if cur.Len() > 0 {
			toks = append(toks, cur.String())
			cur.Reset()
		}
	}
	for _, c := range s {
		switch c {
		case '(', ')':
			flush()
			toks = append(toks, string(c))
		case ' ', '\n', '\t', '\r':
			flush()
		default:
			cur.WriteRune(c)
		}
	}
	flush()
	return toks
}
