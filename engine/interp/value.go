// Copyright 2013 The Go Authors. All rights reserved.
// Use of this source code is governed by a BSD-style
// license that can be found in the LICENSE file.

package interp

// Values
//
// All interpreter values are "boxed" in the empty interface, value.
// The range of possible dynamic types within value are:
//
// - bool
// - numbers (all built-in int/float/complex types are distinguished)
// - string
// - map[value]value --- maps for which  usesBuiltinMap(keyType)
//   *hashmap        --- maps for which !usesBuiltinMap(keyType)
// - chan value
// - []value --- slices
// - iface --- interfaces.
// - structure --- structs.  Fields are ordered and accessed by numeric indices.
// - array --- arrays.
// - *value --- pointers.  Careful: *value is a distinct type from *array etc.
// - *ssa.Function \
//   *ssa.Builtin   } --- functions.  A nil 'func' is always of type *ssa.Function.
//   *closure      /
// - tuple --- as returned by Return, Next, "value,ok" modes, etc.
// - iter --- iterators from 'range' over map or string.
// - bad --- a poison pill for locals that have gone out of scope.
// - rtype -- the interpreter's concrete implementation of reflect.Type
// - **deferred -- the address of a frame's defer stack for a Defer._Stack.
//
// Note that nil is not on this list.
//
// Pay close attention to whether or not the dynamic type is a pointer.
// The compiler cannot help you since value is an empty interface.

import (
	"bytes"
	"fmt"
	"go/types"
	"io"
	"strings"
	"sync"
	"unsafe"

	"golang.org/x/tools/go/ssa"
	"golang.org/x/tools/go/types/typeutil"
)

type value interface{}

type tuple []value

type array []value

type iface struct {
	t types.Type // never an "untyped" type
	v value
}

type structure []value

// For map, array, *array, slice, string or channel.
type iter interface {
	// next returns a Tuple (key, value, ok).
	// key and value are unaliased, e.g. copies of the sequence element.
	next() tuple
}

type closure struct {
	Fn  *ssa.Function
	Env []value
}

type bad struct{}

type rtype struct {
	t types.Type
}

// Hash functions and equivalence relation:

// hashString computes the FNV hash of s.
func hashString(s string) int {
	var h uint32
	for i := 0; i < len(s); i++ {
		h ^= uint32(s[i])
		h *= 16777619
	}
	return int(h)
}

var (
	mu     sync.Mutex
	hasher = typeutil.MakeHasher()
)

// hashType returns a hash for t such that
// types.Identical(x, y) => hashType(x) == hashType(y).
func hashType(t types.Type) int {
	return int(hasher.Hash(t))
}

func (x array) eq(t types.Type, _y interface{}) bool {
	y := _y.(array)
	tElt := t.Underlying().(*types.Array).Elem()
	for i, xi := range x {
		if !equals(tElt, xi, y[i]) {
			return false
		}
	}
	return true
}

func (x array) hash(t types.Type) int {
	h := 0
	tElt := t.Underlying().(*types.Array).Elem()
	for _, xi := range x {
		h += hash(t, tElt, xi)
	}
	return h
}

func (x structure) eq(t types.Type, _y interface{}) bool {
	y := _y.(structure)
	tStruct := t.Underlying().(*types.Struct)
	for i, n := 0, tStruct.NumFields(); i < n; i++ {
		if f := tStruct.Field(i); !f.Anonymous() {
			if !equals(f.Type(), x[i], y[i]) {
				return false
			}
		}
	}
	return true
}

func (x structure) hash(t types.Type) int {
	tStruct := t.Underlying().(*types.Struct)
	h := 0
	for i, n := 0, tStruct.NumFields(); i < n; i++ {
		if f := tStruct.Field(i); !f.Anonymous() {
			h += hash(t, f.Type(), x[i])
		}
	}
	return h
}

// nil-tolerant variant of types.Identical.
func sameType(x, y types.Type) bool {
	if x == nil {
		return y == nil
	}
	return y != nil && types.Identical(x, y)
}

func (x iface) eq(t types.Type, _y interface{}) bool {
	y := _y.(iface)
	return sameType(x.t, y.t) && (x.t == nil || equals(x.t, x.v, y.v))
}

func (x iface) hash(outer types.Type) int {
	if x.t == nil {
		return 0
	}
	return hashType(x.t)*8581 + hash(outer, x.t, x.v)
}

func (x rtype) hash(_ types.Type) int {
	return hashType(x.t)
}

func (x rtype) eq(_ types.Type, y interface{}) bool {
	return types.Identical(x.t, y.(rtype).t)
}

// equals returns true iff x and y are equal according to Go's
// linguistic equivalence relation for type t.  Both must be free of
// symbolic parts (use equalsTerm otherwise).
func equals(t types.Type, x, y value) bool {
	r := equalsTerm(t, x, y)
	if !r.isConst() {
		panic(unsupported("equals on symbolic values in a context that needs a concrete answer"))
	}
	return r.k == 1
}

// equalsTerm returns the condition x == y as a term.
func equalsTerm(t types.Type, x, y value) *term {
	switch x := x.(type) {
	case sym:
		return mkPred(opEq, x.t, termOf(y))
	case symstr:
		return strEqTerm(x, y)
	case string:
		if ys, ok := y.(symstr); ok {
			return strEqTerm(x, ys)
		}
		return mkBool(x == y.(string))
	case bool, int, int8, int16, int32, int64, uint, uint8, uint16, uint32, uint64, uintptr:
		if ys, ok := y.(sym); ok {
			return mkPred(opEq, termOf(x), ys.t)
		}
		return mkBool(x == y)
	case float32:
		return mkBool(x == y.(float32))
	case float64:
		return mkBool(x == y.(float64))
	case complex64:
		return mkBool(x == y.(complex64))
	case complex128:
		return mkBool(x == y.(complex128))
	case *value:
		return mkBool(x == y.(*value))
	case structure:
		ys := y.(structure)
		tStruct := t.Underlying().(*types.Struct)
		r := termTrue
		for i, n := 0, tStruct.NumFields(); i < n; i++ {
			f := tStruct.Field(i)
			if f.Name() == "_" {
				continue
			}
			r = mkAnd(r, equalsTerm(f.Type(), x[i], ys[i]))
			if r.isFalse() {
				return r
			}
		}
		return r
	case array:
		ys := y.(array)
		tElt := t.Underlying().(*types.Array).Elem()
		r := termTrue
		for i := range x {
			r = mkAnd(r, equalsTerm(tElt, x[i], ys[i]))
			if r.isFalse() {
				return r
			}
		}
		return r
	case iface:
		yi := y.(iface)
		if !sameType(x.t, yi.t) {
			return termFalse
		}
		if x.t == nil {
			return termTrue
		}
		if x.t != rtypeType && x.t != errorType && !types.Comparable(x.t) {
			panic(targetPanicMsg("runtime error: comparing uncomparable type " + x.t.String()))
		}
		return equalsTerm(x.t, x.v, yi.v)
	case rtype:
		return mkBool(types.Identical(x.t, y.(rtype).t))
	case *closure, *ssa.Function:
		return mkBool(x == y)
	case *omap:
		return mkBool(x == y.(*omap))
	case hostHandle:
		return mkBool(x == y.(hostHandle))
	}

	// Since map, func and slice don't support comparison, this
	// case is only reachable if one of x or y is literally nil
	// (handled in eqnil) or via interface{} values.
	panic(fmt.Sprintf("comparing uncomparable type %s (%T)", t, x))
}

// hasSym reports whether v contains symbolic parts (for use as a map key).
func hasSym(v value) bool {
	switch v := v.(type) {
	case sym, symstr:
		return true
	case structure:
		for _, f := range v {
			if hasSym(f) {
				return true
			}
		}
	case array:
		for _, f := range v {
			if hasSym(f) {
				return true
			}
		}
	case iface:
		return hasSym(v.v)
	}
	return false
}

// Returns an integer hash of x such that equals(x, y) => hash(x) == hash(y).
// The outer type is used only for the "unhashable" panic message.
func hash(outer, t types.Type, x value) int {
	switch x := x.(type) {
	case bool:
		if x {
			return 1
		}
		return 0
	case int:
		return x
	case int8:
		return int(x)
	case int16:
		return int(x)
	case int32:
		return int(x)
	case int64:
		return int(x)
	case uint:
		return int(x)
	case uint8:
		return int(x)
	case uint16:
		return int(x)
	case uint32:
		return int(x)
	case uint64:
		return int(x)
	case uintptr:
		return int(x)
	case float32:
		return int(x)
	case float64:
		return int(x)
	case complex64:
		return int(real(x))
	case complex128:
		return int(real(x))
	case string:
		return hashString(x)
	case *value:
		return int(uintptr(unsafe.Pointer(x)))
	case structure:
		return x.hash(t)
	case array:
		return x.hash(t)
	case iface:
		return x.hash(t)
	case rtype:
		return x.hash(t)
	}
	panic(fmt.Sprintf("unhashable type %v", outer))
}

// reflect.Value struct values don't have a fixed shape, since the
// payload can be a scalar or an aggregate depending on the instance.
// So store (and load) can't simply use recursion over the shape of the
// rhs value, or the lhs, to copy the value; we need the static type
// information.  (We can't make reflect.Value a new basic data type
// because its "structness" is exposed to Go programs.)

// load returns the value of type T in *addr.
func load(T types.Type, addr *value) value {
	switch T := T.Underlying().(type) {
	case *types.Struct:
		v := (*addr).(structure)
		a := make(structure, len(v))
		for i := range a {
			a[i] = load(T.Field(i).Type(), &v[i])
		}
		return a
	case *types.Array:
		v := (*addr).(array)
		a := make(array, len(v))
		for i := range a {
			a[i] = load(T.Elem(), &v[i])
		}
		return a
	default:
		return *addr
	}
}

// store stores value v of type T into *addr.
func store(T types.Type, addr *value, v value) {
	switch T := T.Underlying().(type) {
	case *types.Struct:
		lhs := (*addr).(structure)
		rhs := v.(structure)
		for i := range lhs {
			store(T.Field(i).Type(), &lhs[i], rhs[i])
		}
	case *types.Array:
		lhs := (*addr).(array)
		rhs := v.(array)
		for i := range lhs {
			store(T.Elem(), &lhs[i], rhs[i])
		}
	default:
		*addr = v
	}
}

// Prints in the style of built-in println.
// (More or less; in gc println is actually a compiler intrinsic and
// can distinguish println(1) from println(interface{}(1)).)
func writeValue(buf *bytes.Buffer, v value) {
	switch v := v.(type) {
	case nil, bool, int, int8, int16, int32, int64, uint, uint8, uint16, uint32, uint64, uintptr, float32, float64, complex64, complex128, string:
		fmt.Fprintf(buf, "%v", v)

	case *omap:
		buf.WriteString("map[")
		sep := ""
		if v != nil {
			for _, e := range v.entries {
				if !e.live {
					continue
				}
				buf.WriteString(sep)
				sep = " "
				writeValue(buf, e.key)
				buf.WriteString(":")
				writeValue(buf, e.val)
			}
		}
		buf.WriteString("]")

	case sym:
		buf.WriteString("<sym " + v.t.String() + ">")

	case symstr:
		fmt.Fprintf(buf, "<symstr len %d>", len(v.b))

	case *value:
		if v == nil {
			buf.WriteString("<nil>")
		} else {
			fmt.Fprintf(buf, "%p", v)
		}

	case iface:
		fmt.Fprintf(buf, "(%s, ", v.t)
		writeValue(buf, v.v)
		buf.WriteString(")")

	case structure:
		buf.WriteString("{")
		for i, e := range v {
			if i > 0 {
				buf.WriteString(" ")
			}
			writeValue(buf, e)
		}
		buf.WriteString("}")

	case array:
		buf.WriteString("[")
		for i, e := range v {
			if i > 0 {
				buf.WriteString(" ")
			}
			writeValue(buf, e)
		}
		buf.WriteString("]")

	case []value:
		buf.WriteString("[")
		for i, e := range v {
			if i > 0 {
				buf.WriteString(" ")
			}
			writeValue(buf, e)
		}
		buf.WriteString("]")

	case *ssa.Function, *ssa.Builtin, *closure:
		fmt.Fprintf(buf, "%p", v) // (an address)

	case rtype:
		buf.WriteString(v.t.String())

	case tuple:
		// Unreachable in well-formed Go programs
		buf.WriteString("(")
		for i, e := range v {
			if i > 0 {
				buf.WriteString(", ")
			}
			writeValue(buf, e)
		}
		buf.WriteString(")")

	default:
		fmt.Fprintf(buf, "<%T>", v)
	}
}

// Implements printing of Go values in the style of built-in println.
func toString(v value) string {
	var b bytes.Buffer
	writeValue(&b, v)
	return b.String()
}

// ------------------------------------------------------------------------
// Iterators

type stringIter struct {
	*strings.Reader
	i int
}

func (it *stringIter) next() tuple {
	okv := make(tuple, 3)
	ch, n, err := it.ReadRune()
	ok := err != io.EOF
	okv[0] = ok
	if ok {
		okv[1] = it.i
		okv[2] = ch
	}
	it.i += n
	return okv
}
