// Copyright 2013 The Go Authors. All rights reserved.
// Use of this source code is governed by a BSD-style
// license that can be found in the LICENSE file.
//
// Extended for gosym: addressable values, Set*, Convert, FieldBy*, Call, …

package interp

// Emulated "reflect" package.
//
// We completely replace the built-in "reflect" package.
// reflect.Type is an interface implemented by rtype (a go/types type);
// reflect.Value is a three-field struct {t, v, p}:
//   t  rtype (iface{} for the zero Value)
//   v  the value, when not addressable
//   p  *value pointing at the variable, when addressable (then v is unused)
// All structural results are concrete; only scalar contents may be symbolic.

import (
	"fmt"
	"go/token"
	"go/types"
	"reflect"
	"strconv"
	"sync"

	"golang.org/x/tools/go/ssa"
)

type opaqueType struct {
	types.Type
	name string
}

func (t *opaqueType) String() string { return t.name }

// A bogus "reflect" type-checker package.  Shared across interpreters.
var reflectTypesPackage = types.NewPackage("reflect", "reflect")

// rtype is the concrete type the interpreter uses to implement the
// reflect.Type interface.
//
// type rtype <opaque>
var rtypeType = makeNamedType("rtype", &opaqueType{nil, "rtype"})

// error is an (interpreted) named type whose underlying type is string.
// The interpreter uses it for all implementations of the built-in error
// interface that it creates.
// We put it in the "reflect" package for expedience.
//
// type error string
var errorType = makeNamedType("error", &opaqueType{nil, "error"})

func makeNamedType(name string, underlying types.Type) *types.Named {
	obj := types.NewTypeName(token.NoPos, reflectTypesPackage, name, nil)
	return types.NewNamed(obj, underlying, nil)
}

func makeReflectValue(t types.Type, v value) value {
	return structure{rtype{t}, v, (*value)(nil)}
}

func makeReflectValueAddr(t types.Type, p *value) value {
	return structure{rtype{t}, nil, p}
}

func rvValid(v value) bool {
	_, ok := v.(structure)[0].(rtype)
	return ok
}

// Given a reflect.Value, returns its rtype.
func rV2T(v value) rtype {
	rt, ok := v.(structure)[0].(rtype)
	if !ok {
		panic(targetPanicMsg("reflect: call of method on zero Value"))
	}
	return rt
}

func rvAddr(v value) *value {
	p, _ := v.(structure)[2].(*value)
	return p
}

// Given a reflect.Value, returns the underlying interpreter value.
func rV2V(v value) value {
	s := v.(structure)
	if p, ok := s[2].(*value); ok && p != nil {
		return load(s[0].(rtype).t, p)
	}
	return s[1]
}

// makeReflectType boxes up an rtype in a reflect.Type interface.
func makeReflectType(rt rtype) value {
	return iface{rtypeType, rt}
}

func typeArg(v value) types.Type {
	itf := v.(iface)
	if itf.t == nil {
		panic(targetPanicMsg("reflect: nil Type"))
	}
	return itf.v.(rtype).t
}

func isInterfaceType(t types.Type) bool {
	_, ok := t.Underlying().(*types.Interface)
	return ok
}

// assignTo converts the content of reflect.Value rv for storage into a
// variable of type dst (interface boxing).
func assignTo(dst types.Type, rv value) value {
	src := rV2T(rv).t
	v := rV2V(rv)
	if isInterfaceType(dst) && !isInterfaceType(src) {
		return iface{src, v}
	}
	return v
}

// reflectTypeString renders a type the way reflect.Type.String() does
// ("interface {}", "struct { F T \"tag\" }", pkg.Name), which differs from
// go/types' rendering in spacing and in the spelling of the empty interface.
func reflectTypeString(t types.Type) string {
	qual := func(p *types.Package) string { return p.Name() }
	switch t := types.Unalias(t).(type) {
	case *types.Pointer:
		return "*" + reflectTypeString(t.Elem())
	case *types.Slice:
		return "[]" + reflectTypeString(t.Elem())
	case *types.Array:
		return "[" + strconv.FormatInt(t.Len(), 10) + "]" + reflectTypeString(t.Elem())
	case *types.Map:
		return "map[" + reflectTypeString(t.Key()) + "]" + reflectTypeString(t.Elem())
	case *types.Interface:
		if t.NumMethods() == 0 && t.NumEmbeddeds() == 0 {
			return "interface {}"
		}
	case *types.Struct:
		if t.NumFields() == 0 {
			return "struct {}"
		}
		out := "struct {"
		for i := 0; i < t.NumFields(); i++ {
			if i > 0 {
				out += ";"
			}
			f := t.Field(i)
			out += " "
			if !f.Embedded() {
				out += f.Name() + " "
			}
			out += reflectTypeString(f.Type())
			if tag := t.Tag(i); tag != "" {
				out += " " + strconv.Quote(tag)
			}
		}
		return out + " }"
	}
	return types.TypeString(t, qual)
}

func reflectTypeName(t types.Type) string {
	switch t := types.Unalias(t).(type) {
	case *types.Named:
		name := t.Obj().Name()
		if targs := t.TypeArgs(); targs != nil && targs.Len() > 0 {
			name += "["
			for i := 0; i < targs.Len(); i++ {
				if i > 0 {
					name += ","
				}
				name += types.TypeString(targs.At(i), func(p *types.Package) string { return p.Path() })
			}
			name += "]"
		}
		return name
	case *types.Basic:
		return t.Name()
	}
	return ""
}

func structFieldValue(st *types.Struct, i int, index []int) value {
	f := st.Field(i)
	pkgPath := ""
	if !f.Exported() && f.Pkg() != nil {
		pkgPath = f.Pkg().Path()
	}
	idx := make([]value, len(index))
	for j, x := range index {
		idx[j] = x
	}
	return structure{
		f.Name(),
		pkgPath,
		makeReflectType(rtype{f.Type()}),
		st.Tag(i),
		uintptr(0),
		idx,
		f.Anonymous(),
	}
}

func zeroStructField() value {
	return structure{"", "", iface{}, "", uintptr(0), []value(nil), false}
}

// ---------------------------------------------------------------------
// reflect.Type methods

func ext۰reflect۰rtype۰Bits(fr *frame, args []value) value {
	rt := args[0].(rtype).t
	basic, ok := rt.Underlying().(*types.Basic)
	if !ok {
		panic(targetPanicMsg(fmt.Sprintf("reflect.Type.Bits(%T): non-basic type", rt)))
	}
	return int(fr.i.sizes.Sizeof(basic)) * 8
}

func ext۰reflect۰rtype۰Elem(fr *frame, args []value) value {
	e, ok := args[0].(rtype).t.Underlying().(interface{ Elem() types.Type })
	if !ok {
		panic(targetPanicMsg("reflect: Elem of invalid type " + reflectTypeString(args[0].(rtype).t)))
	}
	return makeReflectType(rtype{e.Elem()})
}

func ext۰reflect۰rtype۰Key(fr *frame, args []value) value {
	return makeReflectType(rtype{args[0].(rtype).t.Underlying().(*types.Map).Key()})
}

func ext۰reflect۰rtype۰Len(fr *frame, args []value) value {
	return int(args[0].(rtype).t.Underlying().(*types.Array).Len())
}

func ext۰reflect۰rtype۰Field(fr *frame, args []value) value {
	st, ok := args[0].(rtype).t.Underlying().(*types.Struct)
	if !ok {
		panic(targetPanicMsg("reflect: Field of non-struct type " + reflectTypeString(args[0].(rtype).t)))
	}
	i := args[1].(int)
	if i < 0 || i >= st.NumFields() {
		panic(targetPanicMsg("reflect: Field index out of bounds"))
	}
	return structFieldValue(st, i, []int{i})
}

func ext۰reflect۰rtype۰FieldByIndex(fr *frame, args []value) value {
	t := args[0].(rtype).t
	index := args[1].([]value)
	var sf value = zeroStructField()
	for n, x := range index {
		if n > 0 {
			if p, ok := t.Underlying().(*types.Pointer); ok {
				if _, isStruct := p.Elem().Underlying().(*types.Struct); isStruct {
					t = p.Elem()
				}
			}
		}
		st, ok := t.Underlying().(*types.Struct)
		if !ok {
			panic(targetPanicMsg("reflect: FieldByIndex of non-struct type " + reflectTypeString(t)))
		}
		i := x.(int)
		if i < 0 || i >= st.NumFields() {
			panic(targetPanicMsg("reflect: Field index out of bounds"))
		}
		sf = structFieldValue(st, i, []int{i})
		t = st.Field(i).Type()
	}
	return sf
}

func ext۰reflect۰rtype۰FieldByName(fr *frame, args []value) value {
	t := args[0].(rtype).t
	name := args[1].(string)
	if _, ok := t.Underlying().(*types.Struct); !ok {
		panic(targetPanicMsg("reflect: FieldByName of non-struct type " + reflectTypeString(t)))
	}
	// package for unexported names: the struct's own package where known
	var pkg *types.Package
	if n, ok := types.Unalias(t).(*types.Named); ok {
		pkg = n.Obj().Pkg()
	}
	obj, index, _ := types.LookupFieldOrMethod(t, false, pkg, name)
	f, ok := obj.(*types.Var)
	if !ok || !f.IsField() {
		return tuple{zeroStructField(), false}
	}
	// locate the struct that holds it to build the StructField
	cur := t
	var st *types.Struct
	for n, i := range index {
		if n > 0 {
			if p, ok := cur.Underlying().(*types.Pointer); ok {
				cur = p.Elem()
			}
		}
		st = cur.Underlying().(*types.Struct)
		cur = st.Field(i).Type()
	}
	return tuple{structFieldValue(st, index[len(index)-1], index), true}
}

func ext۰reflect۰rtype۰In(fr *frame, args []value) value {
	i := args[1].(int)
	return makeReflectType(rtype{args[0].(rtype).t.Underlying().(*types.Signature).Params().At(i).Type()})
}

func ext۰reflect۰rtype۰Kind(fr *frame, args []value) value {
	return uint(reflectKind(args[0].(rtype).t))
}

func ext۰reflect۰rtype۰Name(fr *frame, args []value) value {
	return reflectTypeName(args[0].(rtype).t)
}

func ext۰reflect۰rtype۰PkgPath(fr *frame, args []value) value {
	if n, ok := types.Unalias(args[0].(rtype).t).(*types.Named); ok && n.Obj().Pkg() != nil {
		return n.Obj().Pkg().Path()
	}
	return ""
}

func ext۰reflect۰rtype۰NumField(fr *frame, args []value) value {
	st, ok := args[0].(rtype).t.Underlying().(*types.Struct)
	if !ok {
		panic(targetPanicMsg("reflect: NumField of non-struct type " + reflectTypeString(args[0].(rtype).t)))
	}
	return st.NumFields()
}

func ext۰reflect۰rtype۰NumIn(fr *frame, args []value) value {
	return args[0].(rtype).t.Underlying().(*types.Signature).Params().Len()
}

func ext۰reflect۰rtype۰NumMethod(fr *frame, args []value) value {
	return fr.i.prog.MethodSets.MethodSet(args[0].(rtype).t).Len()
}

func ext۰reflect۰rtype۰NumOut(fr *frame, args []value) value {
	return args[0].(rtype).t.Underlying().(*types.Signature).Results().Len()
}

func ext۰reflect۰rtype۰Out(fr *frame, args []value) value {
	i := args[1].(int)
	return makeReflectType(rtype{args[0].(rtype).t.Underlying().(*types.Signature).Results().At(i).Type()})
}

func ext۰reflect۰rtype۰Size(fr *frame, args []value) value {
	return uintptr(fr.i.sizes.Sizeof(args[0].(rtype).t))
}

func ext۰reflect۰rtype۰String(fr *frame, args []value) value {
	return reflectTypeString(args[0].(rtype).t)
}

func ext۰reflect۰rtype۰Implements(fr *frame, args []value) value {
	u := typeArg(args[1])
	it, ok := u.Underlying().(*types.Interface)
	if !ok {
		panic(targetPanicMsg("reflect: non-interface type passed to Type.Implements"))
	}
	return types.Implements(args[0].(rtype).t, it)
}

func ext۰reflect۰rtype۰ConvertibleTo(fr *frame, args []value) value {
	return types.ConvertibleTo(args[0].(rtype).t, typeArg(args[1]))
}

func ext۰reflect۰rtype۰AssignableTo(fr *frame, args []value) value {
	return types.AssignableTo(args[0].(rtype).t, typeArg(args[1]))
}

func ext۰reflect۰rtype۰Comparable(fr *frame, args []value) value {
	return types.Comparable(args[0].(rtype).t)
}

// ---------------------------------------------------------------------
// package-level functions

func ext۰reflect۰New(fr *frame, args []value) value {
	t := typeArg(args[0])
	alloc := zero(t)
	return makeReflectValue(types.NewPointer(t), &alloc)
}

func ext۰reflect۰SliceOf(fr *frame, args []value) value {
	return makeReflectType(rtype{types.NewSlice(typeArg(args[0]))})
}

func ext۰reflect۰PtrTo(fr *frame, args []value) value {
	return makeReflectType(rtype{types.NewPointer(typeArg(args[0]))})
}

func ext۰reflect۰TypeOf(fr *frame, args []value) value {
	itf := args[0].(iface)
	if itf.t == nil {
		return iface{}
	}
	return makeReflectType(rtype{itf.t})
}

func ext۰reflect۰ValueOf(fr *frame, args []value) value {
	itf := args[0].(iface)
	if itf.t == nil {
		return zero(reflectValueType(fr.i))
	}
	return makeReflectValue(itf.t, itf.v)
}

func reflectValueType(i *interpreter) types.Type {
	return i.prog.ImportedPackage("reflect").Pkg.Scope().Lookup("Value").Type()
}

func ext۰reflect۰Zero(fr *frame, args []value) value {
	t := typeArg(args[0])
	return makeReflectValue(t, zero(t))
}

func ext۰reflect۰Indirect(fr *frame, args []value) value {
	if !rvValid(args[0]) {
		return args[0]
	}
	if reflectKind(rV2T(args[0]).t) != reflect.Ptr {
		return args[0]
	}
	return ext۰reflect۰Value۰Elem(fr, args)
}

func ext۰reflect۰Append(fr *frame, args []value) value {
	s := args[0]
	st := rV2T(s).t
	sl, ok := st.Underlying().(*types.Slice)
	if !ok {
		panic(targetPanicMsg("reflect.Append: not a slice"))
	}
	cur, _ := rV2V(s).([]value)
	// as the real reflect.Append (and the append built-in): the elements are
	// written in place while the capacity lasts, so the result may share its
	// backing array with the argument and with every slice cut from the same array
	out := cur
	for _, x := range args[1].([]value) {
		if !types.AssignableTo(rV2T(x).t, sl.Elem()) {
			panic(targetPanicMsg(fmt.Sprintf("reflect.Append: value of type %s is not assignable to type %s", reflectTypeString(rV2T(x).t), reflectTypeString(sl.Elem()))))
		}
		fr.i.noteAppend(out)
		out = append(out, assignTo(sl.Elem(), x))
	}
	return makeReflectValue(st, out)
}

// cloneAggregate copies struct and array values (which are held by reference
// in the executor) so that the copy does not alias the original.
func cloneAggregate(v value) value {
	switch v := v.(type) {
	case structure:
		out := make(structure, len(v))
		for i := range v {
			out[i] = cloneAggregate(v[i])
		}
		return out
	case array:
		out := make(array, len(v))
		for i := range v {
			out[i] = cloneAggregate(v[i])
		}
		return out
	}
	return v
}

// reflect.AppendSlice(s, t Value) Value
func ext۰reflect۰AppendSlice(fr *frame, args []value) value {
	s, t := args[0], args[1]
	st := rV2T(s).t
	sl, ok := st.Underlying().(*types.Slice)
	if !ok {
		panic(targetPanicMsg("reflect.AppendSlice: not a slice"))
	}
	tl, ok := rV2T(t).t.Underlying().(*types.Slice)
	if !ok || !types.Identical(tl.Elem(), sl.Elem()) {
		panic(targetPanicMsg("reflect.AppendSlice: element types differ"))
	}
	out, _ := rV2V(s).([]value)
	more, _ := rV2V(t).([]value)
	for _, x := range more {
		fr.i.noteAppend(out)
		out = append(out, cloneAggregate(x))
	}
	return makeReflectValue(st, out)
}

// reflect.StructOf([]StructField) Type
func ext۰reflect۰StructOf(fr *frame, args []value) value {
	var fields []*types.Var
	var tags []string
	for _, f := range args[0].([]value) {
		sf := f.(structure)
		name, _ := sf[0].(string)
		pkgPath, _ := sf[1].(string)
		var pkg *types.Package
		if pkgPath != "" {
			pkg = fr.i.eng.pkg.Pkg
		}
		anon, _ := sf[6].(bool)
		fields = append(fields, types.NewField(token.NoPos, pkg, name, typeArg(sf[2]), anon))
		tag, _ := sf[3].(string)
		tags = append(tags, tag)
	}
	return makeReflectType(rtype{types.NewStruct(fields, tags)})
}

func ext۰reflect۰MakeSlice(fr *frame, args []value) value {
	t := typeArg(args[0])
	n, c := args[1].(int), args[2].(int)
	sl := make([]value, c)
	for i := range sl {
		sl[i] = zero(t.Underlying().(*types.Slice).Elem())
	}
	return makeReflectValue(t, sl[:n])
}

func ext۰reflect۰MakeMap(fr *frame, args []value) value {
	t := typeArg(args[0])
	return makeReflectValue(t, makeMap(t.Underlying().(*types.Map).Key()))
}

func reflectKind(t types.Type) reflect.Kind {
	switch t := t.(type) {
	case *types.Named, *types.Alias:
		return reflectKind(t.Underlying())
	case *types.Basic:
		switch t.Kind() {
		case types.Bool:
			return reflect.Bool
		case types.Int:
			return reflect.Int
		case types.Int8:
			return reflect.Int8
		case types.Int16:
			return reflect.Int16
		case types.Int32:
			return reflect.Int32
		case types.Int64:
			return reflect.Int64
		case types.Uint:
			return reflect.Uint
		case types.Uint8:
			return reflect.Uint8
		case types.Uint16:
			return reflect.Uint16
		case types.Uint32:
			return reflect.Uint32
		case types.Uint64:
			return reflect.Uint64
		case types.Uintptr:
			return reflect.Uintptr
		case types.Float32:
			return reflect.Float32
		case types.Float64:
			return reflect.Float64
		case types.Complex64:
			return reflect.Complex64
		case types.Complex128:
			return reflect.Complex128
		case types.String:
			return reflect.String
		case types.UnsafePointer:
			return reflect.UnsafePointer
		}
	case *types.Array:
		return reflect.Array
	case *types.Chan:
		return reflect.Chan
	case *types.Signature:
		return reflect.Func
	case *types.Interface:
		return reflect.Interface
	case *types.Map:
		return reflect.Map
	case *types.Pointer:
		return reflect.Ptr
	case *types.Slice:
		return reflect.Slice
	case *types.Struct:
		return reflect.Struct
	case *types.TypeParam:
		panic(unsupported("reflect on a type parameter (generic not instantiated)"))
	}
	panic(fmt.Sprint("unexpected type: ", t))
}

// ---------------------------------------------------------------------
// reflect.Value methods

func ext۰reflect۰Value۰Kind(fr *frame, args []value) value {
	if !rvValid(args[0]) {
		return uint(reflect.Invalid)
	}
	return uint(reflectKind(rV2T(args[0]).t))
}

func ext۰reflect۰Value۰String(fr *frame, args []value) value {
	if !rvValid(args[0]) {
		return "<invalid Value>"
	}
	if reflectKind(rV2T(args[0]).t) == reflect.String {
		return rV2V(args[0])
	}
	return "<" + reflectTypeString(rV2T(args[0]).t) + " Value>"
}

func ext۰reflect۰Value۰Type(fr *frame, args []value) value {
	return makeReflectType(rV2T(args[0]))
}

func ext۰reflect۰Value۰Uint(fr *frame, args []value) value {
	switch v := rV2V(args[0]).(type) {
	case uint:
		return uint64(v)
	case uint8:
		return uint64(v)
	case uint16:
		return uint64(v)
	case uint32:
		return uint64(v)
	case uint64:
		return uint64(v)
	case uintptr:
		return uint64(v)
	case sym:
		if !kindSigned(v.k) && v.k != types.Bool {
			return symConvInt(v, types.Uint64)
		}
	}
	panic(targetPanicMsg("reflect: call of reflect.Value.Uint on " + reflectTypeString(rV2T(args[0]).t) + " Value"))
}

func ext۰reflect۰Value۰Len(fr *frame, args []value) value {
	switch v := rV2V(args[0]).(type) {
	case string:
		return len(v)
	case symstr:
		return len(v.b)
	case array:
		return len(v)
	case []value:
		return len(v)
	case *omap:
		return v.len()
	default:
		panic(targetPanicMsg(fmt.Sprintf("reflect: call of reflect.Value.Len on %s Value", reflectTypeString(rV2T(args[0]).t))))
	}
}

func ext۰reflect۰Value۰Cap(fr *frame, args []value) value {
	switch v := rV2V(args[0]).(type) {
	case array:
		return len(v)
	case []value:
		return cap(v)
	default:
		panic(targetPanicMsg(fmt.Sprintf("reflect: call of reflect.Value.Cap on %s Value", reflectTypeString(rV2T(args[0]).t))))
	}
}

func ext۰reflect۰Value۰Grow(fr *frame, args []value) value {
	p := fr.i.rvSettable(args[0], "Grow")
	st, ok := rV2T(args[0]).t.Underlying().(*types.Slice)
	if !ok {
		panic(targetPanicMsg("reflect: call of reflect.Value.Grow on non-slice Value"))
	}
	n := args[1].(int)
	sl, _ := (*p).([]value)
	if len(sl)+n <= cap(sl) {
		return nil
	}
	nc := 2*cap(sl) + n
	grown := make([]value, nc)
	copy(grown, sl)
	for k := len(sl); k < nc; k++ {
		grown[k] = zero(st.Elem())
	}
	*p = grown[:len(sl)]
	return nil
}

func ext۰reflect۰Value۰SetZero(fr *frame, args []value) value {
	p := fr.i.rvSettable(args[0], "SetZero")
	t := rV2T(args[0]).t
	store(t, p, zero(t))
	return nil
}

func ext۰reflect۰Value۰SetLen(fr *frame, args []value) value {
	p := fr.i.rvSettable(args[0], "SetLen")
	sl, _ := (*p).([]value)
	n := args[1].(int)
	if n < 0 || n > cap(sl) {
		panic(targetPanicMsg("reflect: slice length out of range in SetLen"))
	}
	*p = sl[:n]
	return nil
}

func ext۰reflect۰Value۰MapIndex(fr *frame, args []value) value {
	tElem := rV2T(args[0]).t.Underlying().(*types.Map).Elem()
	k := rV2V(args[1])
	m := rV2V(args[0]).(*omap)
	if e := m.find(fr.i, k); e != nil {
		return makeReflectValue(tElem, e.val)
	}
	return zero(reflectValueType(fr.i))
}

func ext۰reflect۰Value۰MapKeys(fr *frame, args []value) value {
	var keys []value
	tKey := rV2T(args[0]).t.Underlying().(*types.Map).Key()
	m := rV2V(args[0]).(*omap)
	if m != nil {
		for _, e := range m.entries {
			if e.live {
				keys = append(keys, makeReflectValue(tKey, e.key))
			}
		}
	}
	return keys
}

func ext۰reflect۰Value۰SetMapIndex(fr *frame, args []value) value {
	m, _ := rV2V(args[0]).(*omap)
	if m == nil {
		panic(targetPanicMsg("assignment to entry in nil map"))
	}
	fr.i.noteMapWrite(m)
	mt := rV2T(args[0]).t.Underlying().(*types.Map)
	k := assignTo(mt.Key(), args[1])
	if !rvValid(args[2]) {
		m.delete(fr.i, k)
		return nil
	}
	ev := assignTo(mt.Elem(), args[2])
	m.insert(fr.i, k, load(mt.Elem(), &ev))
	return nil
}

// MapRange / MapIter: the iterator is a host handle over a snapshot of the
// live entries (insertion order, as everywhere in this executor).
type mapIterState struct {
	tKey, tElem types.Type
	keys, vals  []value
	pos         int
}

func ext۰reflect۰Value۰MapRange(fr *frame, args []value) value {
	mt := rV2T(args[0]).t.Underlying().(*types.Map)
	st := &mapIterState{tKey: mt.Key(), tElem: mt.Elem(), pos: -1}
	if m, _ := rV2V(args[0]).(*omap); m != nil {
		for _, e := range m.entries {
			if e.live {
				st.keys = append(st.keys, e.key)
				st.vals = append(st.vals, e.val)
			}
		}
	}
	var cell value = hostHandle{st}
	return &cell
}

func mapIterOf(v value) *mapIterState { return (*v.(*value)).(hostHandle).p.(*mapIterState) }

func ext۰reflect۰MapIter۰Next(fr *frame, args []value) value {
	st := mapIterOf(args[0])
	st.pos++
	return st.pos < len(st.keys)
}

func ext۰reflect۰MapIter۰Key(fr *frame, args []value) value {
	st := mapIterOf(args[0])
	return makeReflectValue(st.tKey, st.keys[st.pos])
}

func ext۰reflect۰MapIter۰Value(fr *frame, args []value) value {
	st := mapIterOf(args[0])
	return makeReflectValue(st.tElem, st.vals[st.pos])
}

func ext۰reflect۰Value۰NumField(fr *frame, args []value) value {
	st, ok := rV2T(args[0]).t.Underlying().(*types.Struct)
	if !ok {
		panic(targetPanicMsg("reflect: call of reflect.Value.NumField on non-struct Value"))
	}
	return st.NumFields()
}

func ext۰reflect۰Value۰NumMethod(fr *frame, args []value) value {
	return fr.i.prog.MethodSets.MethodSet(rV2T(args[0]).t).Len()
}

func ext۰reflect۰Value۰Index(fr *frame, args []value) value {
	t := rV2T(args[0]).t.Underlying()
	switch v := rV2V(args[0]).(type) {
	case array:
		i := fr.i.concretizeIndex(args[1], len(v), "reflect.Value.Index")
		if p := rvAddr(args[0]); p != nil {
			return makeReflectValueAddr(t.(*types.Array).Elem(), &(*p).(array)[i])
		}
		return makeReflectValue(t.(*types.Array).Elem(), v[i])
	case []value:
		i := fr.i.concretizeIndex(args[1], len(v), "reflect.Value.Index")
		return makeReflectValueAddr(t.(*types.Slice).Elem(), &v[i])
	default:
		panic(targetPanicMsg(fmt.Sprintf("reflect: call of reflect.Value.Index on %s Value", reflectTypeString(rV2T(args[0]).t))))
	}
}

func ext۰reflect۰Value۰Bool(fr *frame, args []value) value {
	switch v := rV2V(args[0]).(type) {
	case bool:
		return v
	case sym:
		if v.k == types.Bool {
			return v
		}
	}
	panic(targetPanicMsg("reflect: call of reflect.Value.Bool on " + reflectTypeString(rV2T(args[0]).t) + " Value"))
}

func ext۰reflect۰Value۰CanAddr(fr *frame, args []value) value {
	if !rvValid(args[0]) {
		return false
	}
	return rvAddr(args[0]) != nil
}

func ext۰reflect۰Value۰CanSet(fr *frame, args []value) value {
	if !rvValid(args[0]) {
		return false
	}
	return rvAddr(args[0]) != nil
}

func ext۰reflect۰Value۰CanInterface(fr *frame, args []value) value {
	return true
}

func ext۰reflect۰Value۰Addr(fr *frame, args []value) value {
	p := rvAddr(args[0])
	if p == nil {
		panic(targetPanicMsg("reflect.Value.Addr of unaddressable value"))
	}
	return makeReflectValue(types.NewPointer(rV2T(args[0]).t), p)
}

func ext۰reflect۰Value۰Elem(fr *frame, args []value) value {
	t := rV2T(args[0]).t
	switch x := rV2V(args[0]).(type) {
	case iface:
		if x.t == nil {
			return zero(reflectValueType(fr.i))
		}
		return makeReflectValue(x.t, x.v)
	case *value:
		if x == nil {
			return zero(reflectValueType(fr.i))
		}
		return makeReflectValueAddr(t.Underlying().(*types.Pointer).Elem(), x)
	default:
		panic(targetPanicMsg(fmt.Sprintf("reflect: call of reflect.Value.Elem on %s Value", reflectTypeString(t))))
	}
}

func ext۰reflect۰Value۰Field(fr *frame, args []value) value {
	v := args[0]
	i := args[1].(int)
	st, ok := rV2T(v).t.Underlying().(*types.Struct)
	if !ok {
		panic(targetPanicMsg("reflect: call of reflect.Value.Field on non-struct Value"))
	}
	if i < 0 || i >= st.NumFields() {
		panic(targetPanicMsg("reflect: Field index out of range"))
	}
	if p := rvAddr(v); p != nil {
		return makeReflectValueAddr(st.Field(i).Type(), &(*p).(structure)[i])
	}
	return makeReflectValue(st.Field(i).Type(), rV2V(v).(structure)[i])
}

func ext۰reflect۰Value۰FieldByIndex(fr *frame, args []value) value {
	v := args[0]
	index := args[1].([]value)
	if len(index) == 1 {
		return ext۰reflect۰Value۰Field(fr, []value{v, index[0]})
	}
	for n, x := range index {
		if n > 0 {
			if reflectKind(rV2T(v).t) == reflect.Ptr {
				if _, isStruct := rV2T(v).t.Underlying().(*types.Pointer).Elem().Underlying().(*types.Struct); isStruct {
					if rV2V(v).(*value) == nil {
						panic(targetPanicMsg("reflect: indirection through nil pointer to embedded struct"))
					}
					v = ext۰reflect۰Value۰Elem(fr, []value{v})
				}
			}
		}
		v = ext۰reflect۰Value۰Field(fr, []value{v, x})
	}
	return v
}

func ext۰reflect۰Value۰FieldByName(fr *frame, args []value) value {
	r := ext۰reflect۰rtype۰FieldByName(fr, []value{rV2T(args[0]), args[1]}).(tuple)
	if !r[1].(bool) {
		return zero(reflectValueType(fr.i))
	}
	return ext۰reflect۰Value۰FieldByIndex(fr, []value{args[0], r[0].(structure)[5]})
}

func ext۰reflect۰Value۰Float(fr *frame, args []value) value {
	switch v := rV2V(args[0]).(type) {
	case float32:
		return float64(v)
	case float64:
		return float64(v)
	}
	panic(targetPanicMsg("reflect: call of reflect.Value.Float on " + reflectTypeString(rV2T(args[0]).t) + " Value"))
}

func ext۰reflect۰Value۰Interface(fr *frame, args []value) value {
	return ext۰reflect۰valueInterface(fr, args)
}

func ext۰reflect۰Value۰Int(fr *frame, args []value) value {
	switch x := rV2V(args[0]).(type) {
	case int:
		return int64(x)
	case int8:
		return int64(x)
	case int16:
		return int64(x)
	case int32:
		return int64(x)
	case int64:
		return x
	case sym:
		if kindSigned(x.k) {
			return symConvInt(x, types.Int64)
		}
	}
	panic(targetPanicMsg("reflect: call of reflect.Value.Int on " + reflectTypeString(rV2T(args[0]).t) + " Value"))
}

func ext۰reflect۰Value۰IsNil(fr *frame, args []value) value {
	switch x := rV2V(args[0]).(type) {
	case *value:
		return x == nil
	case *omap:
		return x == nil
	case iface:
		return x.t == nil
	case []value:
		return x == nil
	case *ssa.Function:
		return x == nil
	case *ssa.Builtin:
		return x == nil
	case *closure:
		return x == nil
	default:
		panic(targetPanicMsg(fmt.Sprintf("reflect: call of reflect.Value.IsNil on %s Value", reflectTypeString(rV2T(args[0]).t))))
	}
}

func ext۰reflect۰Value۰IsValid(fr *frame, args []value) value {
	return rvValid(args[0])
}

func ext۰reflect۰Value۰IsZero(fr *frame, args []value) value {
	t := rV2T(args[0]).t
	switch t.Underlying().(type) {
	case *types.Slice, *types.Map, *types.Signature:
		return fromTerm(eqnil(t, rV2V(args[0]), zero(t)), types.Bool)
	}
	return fromTerm(equalsTerm(t, rV2V(args[0]), zero(t)), types.Bool)
}

func (i *interpreter) rvSettable(v value, op string) *value {
	p := rvAddr(v)
	if p == nil {
		panic(targetPanicMsg("reflect: reflect.Value." + op + " using unaddressable value"))
	}
	i.noteStore(p)
	return p
}

func ext۰reflect۰Value۰Set(fr *frame, args []value) value {
	p := fr.i.rvSettable(args[0], "Set")
	dst := rV2T(args[0]).t
	if !rvValid(args[1]) {
		panic(targetPanicMsg("reflect: call of reflect.Value.Set on zero Value"))
	}
	src := rV2T(args[1]).t
	if !types.AssignableTo(src, dst) {
		panic(targetPanicMsg(fmt.Sprintf("reflect.Set: value of type %s is not assignable to type %s", reflectTypeString(src), reflectTypeString(dst))))
	}
	store(dst, p, assignTo(dst, args[1]))
	return nil
}

func ext۰reflect۰Value۰SetInt(fr *frame, args []value) value {
	p := fr.i.rvSettable(args[0], "SetInt")
	k, ok := basicKindOfType(rV2T(args[0]).t)
	if !ok || !kindSigned(k) {
		panic(targetPanicMsg("reflect: call of reflect.Value.SetInt on " + reflectTypeString(rV2T(args[0]).t) + " Value"))
	}
	switch x := args[1].(type) {
	case int64:
		*p = concreteOfKind(uint64(x), k)
	case sym:
		*p = symConvInt(x, k)
	}
	return nil
}

func ext۰reflect۰Value۰SetUint(fr *frame, args []value) value {
	p := fr.i.rvSettable(args[0], "SetUint")
	k, ok := basicKindOfType(rV2T(args[0]).t)
	if !ok || kindSigned(k) || k == types.Bool || k == types.String {
		panic(targetPanicMsg("reflect: call of reflect.Value.SetUint on " + reflectTypeString(rV2T(args[0]).t) + " Value"))
	}
	switch x := args[1].(type) {
	case uint64:
		*p = concreteOfKind(x, k)
	case sym:
		*p = symConvInt(x, k)
	}
	return nil
}

func ext۰reflect۰Value۰SetFloat(fr *frame, args []value) value {
	p := fr.i.rvSettable(args[0], "SetFloat")
	k, _ := basicKindOfType(rV2T(args[0]).t)
	x, ok := args[1].(float64)
	if !ok {
		panic(unsupported("SetFloat with symbolic float"))
	}
	switch k {
	case types.Float32:
		*p = float32(x)
	case types.Float64:
		*p = x
	default:
		panic(targetPanicMsg("reflect: call of reflect.Value.SetFloat on " + reflectTypeString(rV2T(args[0]).t) + " Value"))
	}
	return nil
}

func ext۰reflect۰Value۰SetString(fr *frame, args []value) value {
	p := fr.i.rvSettable(args[0], "SetString")
	if reflectKind(rV2T(args[0]).t) != reflect.String {
		panic(targetPanicMsg("reflect: call of reflect.Value.SetString on " + reflectTypeString(rV2T(args[0]).t) + " Value"))
	}
	*p = args[1]
	return nil
}

func ext۰reflect۰Value۰SetBool(fr *frame, args []value) value {
	p := fr.i.rvSettable(args[0], "SetBool")
	if reflectKind(rV2T(args[0]).t) != reflect.Bool {
		panic(targetPanicMsg("reflect: call of reflect.Value.SetBool on " + reflectTypeString(rV2T(args[0]).t) + " Value"))
	}
	*p = args[1]
	return nil
}

func ext۰reflect۰Value۰Convert(fr *frame, args []value) value {
	src := rV2T(args[0]).t
	dst := typeArg(args[1])
	if !types.ConvertibleTo(src, dst) {
		panic(targetPanicMsg(fmt.Sprintf("reflect.Value.Convert: value of type %s cannot be converted to type %s", reflectTypeString(src), reflectTypeString(dst))))
	}
	v := rV2V(args[0])
	if isInterfaceType(dst) {
		if isInterfaceType(src) {
			return makeReflectValue(dst, v)
		}
		return makeReflectValue(dst, iface{src, v})
	}
	if types.Identical(src.Underlying(), dst.Underlying()) {
		return makeReflectValue(dst, v)
	}
	if _, ok := src.Underlying().(*types.Pointer); ok {
		return makeReflectValue(dst, v)
	}
	return makeReflectValue(dst, conv(fr, dst, src, v))
}

func ext۰reflect۰Value۰Call(fr *frame, args []value) value {
	fnv := rV2V(args[0])
	sig, ok := rV2T(args[0]).t.Underlying().(*types.Signature)
	if !ok {
		panic(targetPanicMsg("reflect: call of reflect.Value.Call on non-func Value"))
	}
	in := args[1].([]value)
	cargs := make([]value, len(in))
	for j, a := range in {
		cargs[j] = assignTo(sig.Params().At(j).Type(), a)
	}
	res := call(fr.i, fr, token.NoPos, fnv, cargs)
	var out []value
	switch sig.Results().Len() {
	case 0:
	case 1:
		out = append(out, makeReflectValue(sig.Results().At(0).Type(), res))
	default:
		for j, r := range res.(tuple) {
			out = append(out, makeReflectValue(sig.Results().At(j).Type(), r))
		}
	}
	return out
}

func ext۰reflect۰valueInterface(fr *frame, args []value) value {
	v := args[0].(structure)
	t := rV2T(v).t
	val := rV2V(v)
	if isInterfaceType(t) {
		return val // already an interface value
	}
	return iface{t, val}
}

func ext۰reflect۰Value۰Pointer(fr *frame, args []value) value {
	panic(unsupported("reflect.Value.Pointer"))
}

// UnsafeAddr / Addr().Pointer() as an identity: every addressable cell gets a
// distinct, stable, non-zero number per path (no arithmetic is meaningful on it).
func ext۰reflect۰Value۰UnsafeAddr(fr *frame, args []value) value {
	p := rvAddr(args[0])
	if p == nil {
		panic(targetPanicMsg("reflect.Value.UnsafeAddr of unaddressable value"))
	}
	if fr.i.ps.addrIDs == nil {
		fr.i.ps.addrIDs = map[*value]uintptr{}
	}
	id, ok := fr.i.ps.addrIDs[p]
	if !ok {
		id = uintptr(0x1000 + 16*len(fr.i.ps.addrIDs))
		fr.i.ps.addrIDs[p] = id
	}
	return id
}

func ext۰reflect۰error۰Error(fr *frame, args []value) value {
	return args[0]
}

func ext۰reflect۰Kind۰String(fr *frame, args []value) value {
	return reflect.Kind(args[0].(uint)).String()
}

// newMethod creates a new method of the specified name, package and receiver type.
func newMethod(pkg *ssa.Package, recvType types.Type, name string) *ssa.Function {
	sig := types.NewSignature(types.NewVar(token.NoPos, nil, "recv", recvType), nil, nil, false)
	fn := pkg.Prog.NewFunction(name, sig, "fake reflect method")
	fn.Pkg = pkg
	return fn
}

type reflectState struct {
	pkg          *ssa.Package
	rtypeMethods methodSet
	errorMethods methodSet
}

var (
	reflectMu     sync.Mutex
	reflectStates = map[*ssa.Program]*reflectState{}
)

// methods of reflect.Type that exist but are not modelled (calling one ends
// the path as unsupported)
var rtypeUnmodelled = map[string]bool{
	"Align": true, "CanSeq": true, "CanSeq2": true, "ChanDir": true, "FieldAlign": true, "FieldByNameFunc": true,
	"IsVariadic": true, "Method": true, "MethodByName": true, "OverflowComplex": true, "OverflowFloat": true,
	"OverflowInt": true, "OverflowUint": true, "common": true, "uncommon": true,
}

var rtypeMethodNames = []string{
	"Bits", "Elem", "Field", "FieldByIndex", "FieldByName", "In", "Kind", "NumField", "NumIn", "NumMethod",
	"NumOut", "Out", "Size", "String", "Name", "PkgPath", "Implements", "ConvertibleTo", "AssignableTo",
	"Comparable", "Key", "Len",
}

// initReflect prepares the fake reflect package for prog (once).
func initReflect(prog *ssa.Program) *reflectState {
	reflectMu.Lock()
	defer reflectMu.Unlock()
	if rs, ok := reflectStates[prog]; ok {
		return rs
	}
	rs := &reflectState{}
	rs.pkg = &ssa.Package{
		Prog:    prog,
		Pkg:     reflectTypesPackage,
		Members: make(map[string]ssa.Member),
	}

	// Clobber the type-checker's notion of reflect.Value's
	// underlying type so that it matches the fake one (in the number of
	// fields --- we lie about their types).
	if r := prog.ImportedPackage("reflect"); r != nil {
		rV := r.Pkg.Scope().Lookup("Value").Type().(*types.Named)

		// delete bodies of the old methods
		mset := prog.MethodSets.MethodSet(rV)
		for j := 0; j < mset.Len(); j++ {
			prog.MethodValue(mset.At(j)).Blocks = nil
		}

		tEface := types.NewInterfaceType(nil, nil).Complete()
		rV.SetUnderlying(types.NewStruct([]*types.Var{
			types.NewField(token.NoPos, r.Pkg, "t", tEface, false), // a lie
			types.NewField(token.NoPos, r.Pkg, "v", tEface, false),
			types.NewField(token.NoPos, r.Pkg, "p", tEface, false),
		}, nil))
	}

	rs.rtypeMethods = methodSet{}
	for _, n := range rtypeMethodNames {
		rs.rtypeMethods[n] = newMethod(rs.pkg, rtypeType, n)
	}
	rs.errorMethods = methodSet{
		"Error": newMethod(rs.pkg, errorType, "Error"),
	}
	reflectStates[prog] = rs
	return rs
}
