package interp

// Models, stubs and harness intrinsics: everything that is not executed
// from SSA.  Each model records itself in the evidence ("models hit").

import (
	"fmt"
	"go/token"
	"go/types"
	"regexp"
	"sort"
	"strconv"
	"strings"
	"unicode"
	"unicode/utf8"

	"golang.org/x/tools/go/ssa"
)

// notModelled is returned by a model that declines (falls through to SSA).
type notModelled struct{}

// hostHandle wraps a native Go object (e.g. *regexp.Regexp) that the target
// holds only as an opaque pointer.
type hostHandle struct {
	p interface{}
}

func targetPanicMsg(msg string) targetPanic {
	return targetPanic{iface{errorType, msg}}
}

func (i *interpreter) noteStore(p *value) {
	if i.base.frozenCells != nil {
		if _, bad := i.base.frozenCells[p]; bad {
			panic(pathAbort{kind: abortAssertFail, msg: "store into a memoised (shared) object at " + i.whereAmI()})
		}
	}
	if i.frozenLocal != nil {
		if _, bad := i.frozenLocal[p]; bad {
			panic(pathAbort{kind: abortAssertFail, msg: "store into frozen (shared) object at " + i.whereAmI()})
		}
	}
}

func (i *interpreter) noteMapWrite(m *omap) {
	if i.base.frozenMaps != nil {
		if _, bad := i.base.frozenMaps[m]; bad {
			panic(pathAbort{kind: abortAssertFail, msg: "write to a memoised (shared) map at " + i.whereAmI()})
		}
	}
	if i.frozenMaps != nil {
		if _, bad := i.frozenMaps[m]; bad {
			panic(pathAbort{kind: abortAssertFail, msg: "write to a frozen (shared) map at " + i.whereAmI()})
		}
	}
}

// noteAppend traps an append that would write into the spare capacity of a
// frozen slice's backing array.
func (i *interpreter) noteAppend(s []value) {
	if i.base.frozenCells != nil && len(s) < cap(s) {
		full := s[:cap(s)]
		if _, bad := i.base.frozenCells[&full[len(s)]]; bad {
			panic(pathAbort{kind: abortAssertFail, msg: "append into the spare capacity of a memoised (shared) slice at " + i.whereAmI()})
		}
	}
	if i.frozenLocal != nil && len(s) < cap(s) {
		full := s[:cap(s)]
		if _, bad := i.frozenLocal[&full[len(s)]]; bad {
			panic(pathAbort{kind: abortAssertFail, msg: "append into the spare capacity of a frozen (shared) slice at " + i.whereAmI()})
		}
	}
}

func (i *interpreter) indexString(s string, idx value) value {
	return s[i.concretizeIndex(idx, len(s), "string")]
}

// ---------------------------------------------------------------------
// Which SSA bodies may run.

var defaultExecPkgs = map[string]bool{
	"unicode": true, "unicode/utf8": true, "unicode/utf16": true, "strconv": true, "strings": true,
	"sort": true, "slices": true, "regexp/syntax": true, "text/scanner": true, "bytes": true, "io": true,
	"math": true, "math/bits": true, "cmp": true, "internal/stringslite": true, "internal/bytealg": true,
	"internal/itoa": true, "internal/byteorder": true,
}

var defaultExecFuncs = map[string]bool{
	"(reflect.StructTag).Lookup":       true,
	"(reflect.StructField).IsExported": true,
	"(reflect.StructTag).Get":          true,
	"errors.New":                       true,
	"(*errors.errorString).Error":      true,
	"errors.Unwrap":                    true,
	// pure Go over the modelled Type methods (Kind, NumField, Field, Elem)
	"reflect.VisibleFields":               true,
	"(*reflect.visibleFieldsWalker).walk": true,
	"(*sync.Once).Do":                     false,
}

func (e *Engine) pkgExecutable(path string) bool {
	if strings.HasPrefix(path, e.repoPrefix) || path == e.pkg.Pkg.Path() {
		return true
	}
	if e.execPkgs[path] {
		return true
	}
	return defaultExecPkgs[path]
}

func (e *Engine) funcAllowed(fn *ssa.Function) bool {
	if strings.HasPrefix(fn.String(), "reflect.TypeFor[") {
		return true // generic helper over TypeOf / Elem, both modelled
	}
	return defaultExecFuncs[fn.String()]
}

func (e *Engine) classify(path string) string {
	if strings.HasPrefix(path, e.repoPrefix) {
		return "repo"
	}
	if path == e.pkg.Pkg.Path() {
		return "harness-pkg"
	}
	return "std"
}

// ---------------------------------------------------------------------
// Intrinsics (functions declared in zz_verif_rt.go of the harness package)

func (i *interpreter) isIntrinsic(fn *ssa.Function) bool {
	if fn.Parent() != nil || fn.Pkg == nil {
		return false
	}
	name := fn.Name()
	if len(name) < 2 || name[0] != 'v' || name[1] < 'A' || name[1] > 'Z' {
		return false
	}
	_, ok := intrinsics[name]
	if !ok {
		return false
	}
	pos := i.prog.Fset.Position(fn.Pos())
	return strings.HasSuffix(pos.Filename, "zz_verif_rt.go")
}

var intrinsics map[string]func(fr *frame, args []value) value

func init() {
	intrinsics = map[string]func(fr *frame, args []value) value{
		"vInt":   func(fr *frame, a []value) value { return fr.i.intrinsicVar("int", a[0].(string), 64, types.Int) },
		"vInt64": func(fr *frame, a []value) value { return fr.i.intrinsicVar("int64", a[0].(string), 64, types.Int64) },
		"vByte":  func(fr *frame, a []value) value { return fr.i.intrinsicVar("byte", a[0].(string), 8, types.Uint8) },
		"vRune":  func(fr *frame, a []value) value { return fr.i.intrinsicVar("rune", a[0].(string), 32, types.Int32) },
		"vBool":  func(fr *frame, a []value) value { return fr.i.intrinsicVar("bool", a[0].(string), 0, types.Bool) },
		"vString": func(fr *frame, a []value) value {
			return fr.i.intrinsicString(a[0].(string), int(fr.i.concretize(a[1], nil)))
		},
		"vChoose": func(fr *frame, a []value) value {
			return fr.i.intrinsicChoose(a[0].(string), int(fr.i.concretize(a[1], nil)))
		},
		"vAssume": func(fr *frame, a []value) value { fr.i.intrinsicAssume(a[0]); return nil },
		"vAssert": func(fr *frame, a []value) value { fr.i.intrinsicAssert(a[0], a[1].(string)); return nil },
		"vReach": func(fr *frame, a []value) value {
			fr.i.ps.reach = append(fr.i.ps.reach, a[0].(string))
			return nil
		},
		"vObserve": func(fr *frame, a []value) value {
			o := observation{tag: a[0].(string)}
			for _, x := range a[1].([]value) {
				o.vals = append(o.vals, x)
			}
			fr.i.ps.obs = append(fr.i.ps.obs, o)
			return nil
		},
		"vUnreachable": func(fr *frame, a []value) value {
			panic(pathAbort{kind: abortAssertFail, msg: "vUnreachable: " + a[0].(string)})
		},
		"vSymbolic": func(fr *frame, a []value) value { return true },
		// vStepLimit(n, msg): the code executed from here on must finish
		// within n interpreter steps (bounded termination as a safety
		// property); vStepLimit(0, "") lifts the limit.
		"vStepLimit": func(fr *frame, a []value) value {
			n := fr.i.concretize(a[0], nil)
			if n <= 0 {
				fr.i.ps.termLimit = 0
			} else {
				fr.i.ps.termLimit = fr.i.ps.steps + n
				fr.i.ps.termMsg = a[1].(string)
			}
			return nil
		},
		// vMemo(key, fn): the result of the concrete, deterministic set-up fn
		// is computed once per worker and shared by all paths.  Everything
		// reachable from it is frozen: a later store into it ends the path.
		"vMemo": func(fr *frame, a []value) value {
			key := a[0].(string)
			base := fr.i.base
			if v, ok := base.memo[key]; ok {
				return v
			}
			before, vars := len(fr.i.ps.trail), len(fr.i.ps.varTerm)
			r := call(fr.i, fr, token.NoPos, a[1], nil)
			if len(fr.i.ps.trail) != before || len(fr.i.ps.varTerm) != vars {
				panic(unsupported("vMemo: the memoised set-up made symbolic decisions (key " + key + ")"))
			}
			if base.memo == nil {
				base.memo = map[string]value{}
			}
			base.memo[key] = r
			fr.i.freezeInto(r, &base.frozenCells, &base.frozenMaps)
			return r
		},
		// vNumText: an opaque (symbolic) numeric token text; strconv.Parse*
		// on it is an uninterpreted function with the documented contract.
		"vNumText": func(fr *frame, a []value) value {
			t := fr.i.newVar(8)
			fr.i.ps.vars = append(fr.i.ps.vars, VarInfo{Name: t.name, Kind: "numtext", Tag: a[0].(string), W: 8})
			return symstr{[]value{sym{t, types.Uint8}}}
		},
		// vParseOracle(fn, text, bits): the result the uninterpreted
		// strconv function gave (or would give) for these arguments.
		"vParseOracle": func(fr *frame, a []value) value {
			fn, bits := a[0].(string), int(fr.i.concretize(a[2], nil))
			for _, c := range fr.i.ps.ufCalls {
				if c.fn == fn && c.base == 0 && c.bits == bits && strEqTerm(c.text, a[1]).isTrue() {
					return tuple{sym{c.val, types.Int64}, fromTerm(c.ok, types.Bool)}
				}
			}
			// never called with these arguments: a fresh result, related to
			// the calls on the same text with other bit sizes by the facts
			// that hold for strconv (a narrower size accepts exactly the
			// values of the wider one that fit, with the same value)
			v, ok := fr.i.newVar(64), fr.i.newVar(0)
			fr.i.ps.vars = append(fr.i.ps.vars, VarInfo{Name: v.name, Kind: "oracle-value", W: 64}, VarInfo{Name: ok.name, Kind: "oracle-ok"})
			nc := ufCall{fn: fn, text: a[1], base: 0, bits: bits, val: v, ok: ok}
			fr.i.assertTerm(mkOr(mkNot(ok), ufFits(fn, v, bits)))
			for _, c := range fr.i.ps.ufCalls {
				if c.fn == fn && c.base == 0 && strEqTerm(c.text, a[1]).isTrue() {
					fr.i.linkUF(c, nc)
				}
			}
			fr.i.ps.ufCalls = append(fr.i.ps.ufCalls, nc)
			fr.i.ps.model = nil
			return tuple{sym{v, types.Int64}, sym{ok, types.Bool}}
		},
		// vOverride(name, fn): calls to the function whose SSA name is name
		// are redirected to fn for the rest of the path (a harness-level stub).
		// vWrap(name, fn): like vOverride, but a call made directly by fn
		// itself reaches the original function (a monitor around it).
		"vWrap": func(fr *frame, a []value) value {
			if fr.i.overrides == nil {
				fr.i.overrides = map[string]value{}
			}
			if fr.i.wraps == nil {
				fr.i.wraps = map[string]bool{}
			}
			fr.i.overrides[a[0].(string)] = a[1].(iface).v
			fr.i.wraps[a[0].(string)] = true
			fr.i.modelsHit["harness monitor around "+a[0].(string)] = true
			return nil
		},
		"vOverride": func(fr *frame, a []value) value {
			if fr.i.overrides == nil {
				fr.i.overrides = map[string]value{}
			}
			fr.i.overrides[a[0].(string)] = a[1].(iface).v
			fr.i.modelsHit["harness stub for "+a[0].(string)] = true
			return nil
		},
		// non-forking boolean connectives and range test
		"vAnd": func(fr *frame, a []value) value { return fromTerm(mkAnd(termOf(a[0]), termOf(a[1])), types.Bool) },
		"vOr":  func(fr *frame, a []value) value { return fromTerm(mkOr(termOf(a[0]), termOf(a[1])), types.Bool) },
		"vNot": func(fr *frame, a []value) value { return fromTerm(mkNot(termOf(a[0])), types.Bool) },
		"vInRange": func(fr *frame, a []value) value {
			c := termOf(a[0])
			return fromTerm(mkAnd(mkPred(opULe, termOf(a[1]), c), mkPred(opULe, c, termOf(a[2]))), types.Bool)
		},
		"vIte": func(fr *frame, a []value) value {
			return fromTerm(mkIte(termOf(a[0]), termOf(a[1]), termOf(a[2])), scalarKind(a[1]))
		},
		"vTrackPossessive": func(fr *frame, a []value) value {
			fr.i.ps.trackPoss = a[0].(bool)
			return nil
		},
		"vPossessiveDiffered": func(fr *frame, a []value) value {
			d := fr.i.ps.possDiff
			fr.i.ps.inputs = append(fr.i.ps.inputs, inputRec{Kind: "bool", Tag: "possessive-differed", Terms: []*term{mkBool(d)}})
			return d
		},
		"vFreeze": func(fr *frame, a []value) value {
			fr.i.freezeReachable(a[0])
			return nil
		},
	}
}

// ---------------------------------------------------------------------
// helpers

func concreteString(v value) (string, bool) {
	s, ok := v.(string)
	return s, ok
}

func allConcreteStrings(vs ...value) bool {
	for _, v := range vs {
		if _, ok := v.(string); !ok {
			return false
		}
	}
	return true
}

func bytesOfSlice(v value) ([]byte, bool) {
	sl := v.([]value)
	out := make([]byte, len(sl))
	for j, b := range sl {
		c, ok := b.(uint8)
		if !ok {
			return nil, false
		}
		out[j] = c
	}
	return out, true
}

func sliceOfBytes(b []byte) []value {
	out := make([]value, len(b))
	for j, c := range b {
		out[j] = c
	}
	return out
}

func stringsToValues(ss []string) []value {
	if ss == nil {
		return nil
	}
	out := make([]value, len(ss))
	for j, s := range ss {
		out[j] = s
	}
	return out
}

func (i *interpreter) mkError(msg value) value {
	// *errors.errorString
	errPkg := i.prog.ImportedPackage("errors")
	if errPkg == nil {
		return iface{errorType, msg}
	}
	t := errPkg.Type("errorString").Object().Type()
	var cell value = structure{msg}
	return iface{types.NewPointer(t), &cell}
}

// countByteTerm returns Σ [b_i == c] as a 64-bit term.
func countByteTerm(bs []value, c byte) *term {
	sum := mkConst(0, 64)
	for _, b := range bs {
		eq := mkPred(opEq, termOf(b), mkConst(uint64(c), 8))
		sum = mkBin(opAdd, sum, mkIte(eq, mkConst(1, 64), mkConst(0, 64)))
	}
	return sum
}

// indexByteTerm returns the first (or last) index of byte c in bs, -1 if none.
func indexByteTerm(bs []value, c value, last bool) *term {
	res := mkConst(^uint64(0), 64)
	ct := termOf(c)
	if last {
		for j := 0; j < len(bs); j++ {
			res = mkIte(mkPred(opEq, termOf(bs[j]), ct), mkConst(uint64(j), 64), res)
		}
	} else {
		for j := len(bs) - 1; j >= 0; j-- {
			res = mkIte(mkPred(opEq, termOf(bs[j]), ct), mkConst(uint64(j), 64), res)
		}
	}
	return res
}

// indexByteFork returns the first (or last) index of byte c in bs by forking
// on each comparison (every decision is about one byte, so the result is
// concrete and the decisions stay within the byte-domain fast path).
func (i *interpreter) indexByteFork(bs []value, c value, last bool) int {
	ct := termOf(c)
	if last {
		for j := len(bs) - 1; j >= 0; j-- {
			if i.decide(mkPred(opEq, termOf(bs[j]), ct)) {
				return j
			}
		}
		return -1
	}
	for j := 0; j < len(bs); j++ {
		if i.decide(mkPred(opEq, termOf(bs[j]), ct)) {
			return j
		}
	}
	return -1
}

// indexStrFork: first/last index of sep in s, forking per position.
func (i *interpreter) indexStrFork(s, sep value, last bool) int {
	bs, bsep := strBytes(s), strBytes(sep)
	n, m := len(bs), len(bsep)
	if m > n {
		return -1
	}
	matchAt := func(j int) *term {
		r := termTrue
		for k := 0; k < m; k++ {
			r = mkAnd(r, mkPred(opEq, termOf(bs[j+k]), termOf(bsep[k])))
		}
		return r
	}
	if last {
		for j := n - m; j >= 0; j-- {
			if i.decide(matchAt(j)) {
				return j
			}
		}
		return -1
	}
	for j := 0; j+m <= n; j++ {
		if i.decide(matchAt(j)) {
			return j
		}
	}
	return -1
}

// indexStrTerm: first/last index of sep in s (both string-like), -1 if none.
func indexStrTerm(s, sep value, last bool) *term {
	bs, bsep := strBytes(s), strBytes(sep)
	n, m := len(bs), len(bsep)
	res := mkConst(^uint64(0), 64)
	if m > n {
		return res
	}
	matchAt := func(j int) *term {
		r := termTrue
		for k := 0; k < m; k++ {
			r = mkAnd(r, mkPred(opEq, termOf(bs[j+k]), termOf(bsep[k])))
		}
		return r
	}
	if last {
		for j := 0; j+m <= n; j++ {
			res = mkIte(matchAt(j), mkConst(uint64(j), 64), res)
		}
	} else {
		for j := n - m; j >= 0; j-- {
			res = mkIte(matchAt(j), mkConst(uint64(j), 64), res)
		}
	}
	return res
}

// ---------------------------------------------------------------------
// strings / bytes / bytealg

func ext۰strings۰Count(fr *frame, args []value) value {
	if allConcreteStrings(args[0], args[1]) {
		return strings.Count(args[0].(string), args[1].(string))
	}
	sep, ok := args[1].(string)
	if ok && len(sep) == 1 {
		return fromTerm(countByteTerm(strBytes(args[0]), sep[0]), types.Int)
	}
	return notModelled{}
}

func ext۰strings۰Index(fr *frame, args []value) value {
	if allConcreteStrings(args[0], args[1]) {
		return strings.Index(args[0].(string), args[1].(string))
	}
	return fr.i.indexStrFork(args[0], args[1], false)
}

func ext۰strings۰LastIndex(fr *frame, args []value) value {
	if allConcreteStrings(args[0], args[1]) {
		return strings.LastIndex(args[0].(string), args[1].(string))
	}
	return fr.i.indexStrFork(args[0], args[1], true)
}

func ext۰strings۰IndexByte(fr *frame, args []value) value {
	if s, ok := args[0].(string); ok {
		if c, ok := args[1].(uint8); ok {
			return strings.IndexByte(s, c)
		}
	}
	return fr.i.indexByteFork(strBytes(args[0]), args[1], false)
}

func ext۰strings۰LastIndexByte(fr *frame, args []value) value {
	if s, ok := args[0].(string); ok {
		if c, ok := args[1].(uint8); ok {
			return strings.LastIndexByte(s, c)
		}
	}
	return fr.i.indexByteFork(strBytes(args[0]), args[1], true)
}

func ext۰strings۰Contains(fr *frame, args []value) value {
	if allConcreteStrings(args[0], args[1]) {
		return strings.Contains(args[0].(string), args[1].(string))
	}
	t := indexStrTerm(args[0], args[1], false)
	return fromTerm(mkNot(mkPred(opEq, t, mkConst(^uint64(0), 64))), types.Bool)
}

func ext۰bytealg۰IndexByte(fr *frame, args []value) value {
	return fr.i.indexByteFork(args[0].([]value), args[1], false)
}

func ext۰bytealg۰CountString(fr *frame, args []value) value {
	c, ok := args[1].(uint8)
	if !ok {
		panic(unsupported("bytealg.CountString with symbolic byte"))
	}
	return fromTerm(countByteTerm(strBytes(args[0]), c), types.Int)
}

func ext۰bytealg۰Count(fr *frame, args []value) value {
	c, ok := args[1].(uint8)
	if !ok {
		panic(unsupported("bytealg.Count with symbolic byte"))
	}
	return fromTerm(countByteTerm(args[0].([]value), c), types.Int)
}

func ext۰bytealg۰IndexString(fr *frame, args []value) value {
	return fr.i.indexStrFork(args[0], args[1], false)
}

func ext۰bytes۰Equal(fr *frame, args []value) value {
	a := args[0].([]value)
	b := args[1].([]value)
	if len(a) != len(b) {
		return false
	}
	r := termTrue
	for j := range a {
		r = mkAnd(r, mkPred(opEq, termOf(a[j]), termOf(b[j])))
	}
	return fromTerm(r, types.Bool)
}

func ext۰bytes۰IndexByte(fr *frame, args []value) value {
	return fr.i.indexByteFork(args[0].([]value), args[1], false)
}

func ext۰strings۰EqualFold(fr *frame, args []value) value {
	if allConcreteStrings(args[0], args[1]) {
		return strings.EqualFold(args[0].(string), args[1].(string))
	}
	return notModelled{} // executed from SSA (forks on byte classes)
}

// asciiCase maps a symbolic string byte-wise; bytes >= 0x80 are outside the
// model (the path ends as unsupported if such a byte is feasible).
func (i *interpreter) asciiCase(v value, upper bool) value {
	var out []value
	for _, b := range strBytes(v) {
		if c, ok := b.(uint8); ok && c < 0x80 {
			if upper && c >= 'a' && c <= 'z' {
				c -= 32
			} else if !upper && c >= 'A' && c <= 'Z' {
				c += 32
			}
			out = append(out, c)
			continue
		}
		t := termOf(b)
		if i.decide(mkPred(opULe, mkConst(0x80, 8), t)) {
			panic(unsupported("strings.ToUpper/ToLower on a symbolic non-ASCII byte"))
		}
		lo, hi, delta := uint64('a'), uint64('z'), uint64(0xE0) // -32
		if !upper {
			lo, hi, delta = 'A', 'Z', 32
		}
		in := mkAnd(mkPred(opULe, mkConst(lo, 8), t), mkPred(opULe, t, mkConst(hi, 8)))
		out = append(out, fromTerm(mkIte(in, mkBin(opAdd, t, mkConst(delta, 8)), t), types.Uint8))
	}
	i.modelsHit["strings.ToUpper/ToLower: ASCII-only model on symbolic bytes"] = true
	return mkStr(out)
}

func ext۰strings۰ToUpper(fr *frame, args []value) value {
	if s, ok := args[0].(string); ok {
		return strings.ToUpper(s)
	}
	return fr.i.asciiCase(args[0], true)
}

func ext۰strings۰ToLower(fr *frame, args []value) value {
	if s, ok := args[0].(string); ok {
		return strings.ToLower(s)
	}
	return fr.i.asciiCase(args[0], false)
}

func ext۰strings۰Repeat(fr *frame, args []value) value {
	n := int(fr.i.concretize(args[1], nil))
	if n < 0 {
		panic(targetPanicMsg("strings: negative Repeat count"))
	}
	var out []value
	b := strBytes(args[0])
	for j := 0; j < n; j++ {
		out = append(out, b...)
	}
	return mkStr(out)
}

func ext۰strings۰Join(fr *frame, args []value) value {
	elems := args[0].([]value)
	sep := strBytes(args[1])
	var out []value
	for j, e := range elems {
		if j > 0 {
			out = append(out, sep...)
		}
		out = append(out, strBytes(e)...)
	}
	return mkStr(out)
}

func ext۰strings۰Split(fr *frame, args []value) value {
	if allConcreteStrings(args[0], args[1]) {
		return stringsToValues(strings.Split(args[0].(string), args[1].(string)))
	}
	panic(unsupported("strings.Split on a symbolic string"))
}

func ext۰strings۰Replace(fr *frame, args []value) value {
	if allConcreteStrings(args[0], args[1], args[2]) {
		return strings.Replace(args[0].(string), args[1].(string), args[2].(string), int(fr.i.concretize(args[3], nil)))
	}
	panic(unsupported("strings.Replace on a symbolic string"))
}

func ext۰strings۰ReplaceAll(fr *frame, args []value) value {
	if allConcreteStrings(args[0], args[1], args[2]) {
		return strings.ReplaceAll(args[0].(string), args[1].(string), args[2].(string))
	}
	old, ok1 := args[1].(string)
	if ok1 && len(old) == 1 && isStr(args[2]) {
		// single-byte pattern: fork per byte of the subject
		var out []value
		repl := strBytes(args[2])
		for _, b := range strBytes(args[0]) {
			if fr.i.decide(mkPred(opEq, termOf(b), mkConst(uint64(old[0]), 8))) {
				out = append(out, repl...)
			} else {
				out = append(out, b)
			}
		}
		return mkStr(out)
	}
	panic(unsupported("strings.ReplaceAll on a symbolic string with a multi-byte pattern"))
}

func ext۰strings۰TrimSpace(fr *frame, args []value) value {
	if s, ok := args[0].(string); ok {
		return strings.TrimSpace(s)
	}
	return notModelled{}
}

func ext۰strings۰Fields(fr *frame, args []value) value {
	if s, ok := args[0].(string); ok {
		return stringsToValues(strings.Fields(s))
	}
	panic(unsupported("strings.Fields on a symbolic string"))
}

// strings.Builder: struct{addr *Builder; buf []byte}; we operate on buf.
func builderBuf(args []value) *value {
	p := args[0].(*value)
	if p == nil {
		panic(targetPanicMsg("runtime error: invalid memory address or nil pointer dereference"))
	}
	return &(*p).(structure)[1]
}

func ext۰strings۰Builder۰WriteString(fr *frame, args []value) value {
	b := builderBuf(args)
	fr.i.noteStore(b)
	cur, _ := (*b).([]value)
	*b = append(cur, strBytes(args[1])...)
	return tuple{strLen(args[1]), iface{}}
}

func ext۰strings۰Builder۰WriteByte(fr *frame, args []value) value {
	b := builderBuf(args)
	fr.i.noteStore(b)
	cur, _ := (*b).([]value)
	*b = append(cur, args[1])
	return iface{}
}

func ext۰strings۰Builder۰WriteRune(fr *frame, args []value) value {
	b := builderBuf(args)
	fr.i.noteStore(b)
	cur, _ := (*b).([]value)
	enc := encodeRuneSym(fr.i, args[1])
	*b = append(cur, enc...)
	return tuple{len(enc), iface{}}
}

func ext۰strings۰Builder۰Write(fr *frame, args []value) value {
	b := builderBuf(args)
	fr.i.noteStore(b)
	cur, _ := (*b).([]value)
	*b = append(cur, args[1].([]value)...)
	return tuple{len(args[1].([]value)), iface{}}
}

func ext۰strings۰Builder۰String(fr *frame, args []value) value {
	cur, _ := (*builderBuf(args)).([]value)
	return mkStr(append([]value(nil), cur...))
}

func ext۰strings۰Builder۰Len(fr *frame, args []value) value {
	cur, _ := (*builderBuf(args)).([]value)
	return len(cur)
}

func ext۰strings۰Builder۰Grow(fr *frame, args []value) value { return nil }
func ext۰strings۰Builder۰Reset(fr *frame, args []value) value {
	*builderBuf(args) = []value(nil)
	return nil
}

// io.Copy(dst, src) for the reader/writer pairs the repo uses.
func ext۰io۰Copy(fr *frame, args []value) value {
	dst, src := args[0].(iface), args[1].(iface)
	var data []value
	switch reflectTypeString(src.t) {
	case "*strings.Reader":
		r := (*src.v.(*value)).(structure)
		all := strBytes(r[0])
		pos := asInt64(r[1])
		if pos > int64(len(all)) {
			pos = int64(len(all))
		}
		data = all[pos:]
		(*src.v.(*value)).(structure)[1] = int64(len(all))
	case "*bytes.Reader":
		r := (*src.v.(*value)).(structure)
		all := r[0].([]value)
		pos := asInt64(r[1])
		if pos > int64(len(all)) {
			pos = int64(len(all))
		}
		data = all[pos:]
		(*src.v.(*value)).(structure)[1] = int64(len(all))
	default:
		panic(unsupported("io.Copy from " + reflectTypeString(src.t)))
	}
	switch reflectTypeString(dst.t) {
	case "*strings.Builder":
		ext۰strings۰Builder۰Write(fr, []value{dst.v, append([]value(nil), data...)})
	default:
		panic(unsupported("io.Copy to " + reflectTypeString(dst.t)))
	}
	return tuple{int64(len(data)), iface{}}
}

// ---------------------------------------------------------------------
// unicode / utf8

func unicodePred(f func(rune) bool) externalFn {
	return func(fr *frame, args []value) value {
		if r, ok := args[0].(int32); ok {
			return f(r)
		}
		return notModelled{}
	}
}

func unicodeMap(f func(rune) rune) externalFn {
	return func(fr *frame, args []value) value {
		if r, ok := args[0].(int32); ok {
			return f(r)
		}
		return notModelled{}
	}
}

func ext۰utf8۰DecodeRuneInString(fr *frame, args []value) value {
	b := strBytes(args[0])
	if len(b) == 0 {
		return tuple{int32(utf8.RuneError), 0}
	}
	r, n := decodeRuneSym(fr.i, b)
	return tuple{r, n}
}

func ext۰utf8۰DecodeRune(fr *frame, args []value) value {
	b := args[0].([]value)
	if len(b) == 0 {
		return tuple{int32(utf8.RuneError), 0}
	}
	r, n := decodeRuneSym(fr.i, b)
	return tuple{r, n}
}

func ext۰utf8۰DecodeLastRuneInString(fr *frame, args []value) value {
	b := strBytes(args[0])
	if len(b) == 0 {
		return tuple{int32(utf8.RuneError), 0}
	}
	r, n := decodeLastRuneSym(fr.i, b)
	return tuple{r, n}
}

func ext۰utf8۰RuneCountInString(fr *frame, args []value) value {
	if s, ok := args[0].(string); ok {
		return utf8.RuneCountInString(s)
	}
	b := strBytes(args[0])
	n := 0
	for pos := 0; pos < len(b); n++ {
		_, sz := decodeRuneSym(fr.i, b[pos:])
		pos += sz
	}
	return n
}

// ---------------------------------------------------------------------
// strconv (native when concrete; uninterpreted otherwise — see C17 models)

func (i *interpreter) numError(fn, s string, err error) value {
	return i.mkError(err.Error())
}

func ext۰strconv۰ParseInt(fr *frame, args []value) value {
	s, ok := args[0].(string)
	if !ok {
		if !fr.i.isNumText(args[0]) {
			// ordinary symbolic input bytes: strconv is executed from SSA
			return notModelled{}
		}
		return fr.i.uninterpretedParse("ParseInt", args)
	}
	n, err := strconv.ParseInt(s, int(fr.i.concretize(args[1], nil)), int(fr.i.concretize(args[2], nil)))
	if err != nil {
		return notModelled{} // the real *strconv.NumError is built from SSA
	}
	return tuple{n, iface{}}
}

func ext۰strconv۰ParseUint(fr *frame, args []value) value {
	s, ok := args[0].(string)
	if !ok {
		if !fr.i.isNumText(args[0]) {
			// ordinary symbolic input bytes: strconv is executed from SSA
			return notModelled{}
		}
		return fr.i.uninterpretedParse("ParseUint", args)
	}
	n, err := strconv.ParseUint(s, int(fr.i.concretize(args[1], nil)), int(fr.i.concretize(args[2], nil)))
	if err != nil {
		return notModelled{} // the real *strconv.NumError is built from SSA
	}
	return tuple{n, iface{}}
}

func ext۰strconv۰ParseFloat(fr *frame, args []value) value {
	s, ok := args[0].(string)
	if !ok {
		panic(unsupported("strconv.ParseFloat on a symbolic string"))
	}
	n, err := strconv.ParseFloat(s, int(fr.i.concretize(args[1], nil)))
	if err != nil {
		return tuple{n, fr.i.mkError(err.Error())}
	}
	return tuple{n, iface{}}
}

func ext۰strconv۰Atoi(fr *frame, args []value) value {
	s, ok := args[0].(string)
	if !ok {
		panic(unsupported("strconv.Atoi on a symbolic string"))
	}
	n, err := strconv.Atoi(s)
	if err != nil {
		return tuple{n, fr.i.mkError(err.Error())}
	}
	return tuple{n, iface{}}
}

func ext۰strconv۰Itoa(fr *frame, args []value) value {
	if n, ok := args[0].(int); ok {
		return strconv.Itoa(n)
	}
	// symbolic: fork on the value (bounded by the concretisation fan-out)
	return strconv.Itoa(int(fr.i.concretize(args[0], nil)))
}

func ext۰strconv۰Quote(fr *frame, args []value) value {
	if s, ok := args[0].(string); ok {
		return strconv.Quote(s)
	}
	return notModelled{}
}

// isNumText: the text contains an opaque vNumText byte.
func (i *interpreter) isNumText(v value) bool {
	ss, ok := v.(symstr)
	if !ok {
		return false
	}
	for _, b := range ss.b {
		if sb, ok := b.(sym); ok && sb.t.name != "" {
			for _, vi := range i.ps.vars {
				if vi.Kind == "numtext" && vi.Name == sb.t.name {
					return true
				}
			}
		}
	}
	return false
}

// uninterpretedParse models strconv.ParseInt/ParseUint on a symbolic
// (opaque) text: the result is a fresh 64-bit value and a fresh error flag,
// constrained only by the documented contract: on success the value fits in
// bitSize bits.  Each call is recorded so the harness can inspect it.
func (i *interpreter) uninterpretedParse(fn string, args []value) value {
	base := int(i.concretize(args[1], nil))
	bits := int(i.concretize(args[2], nil))
	v := i.newVar(64)
	ok := i.newVar(0)
	i.ps.vars = append(i.ps.vars, VarInfo{Name: v.name, Kind: "uf-" + fn + "-value", W: 64}, VarInfo{Name: ok.name, Kind: "uf-" + fn + "-ok"})
	i.ps.inputs = append(i.ps.inputs, inputRec{Kind: "uf", Tag: fn, Terms: []*term{v, ok}})
	if bits == 0 {
		bits = 64
	}
	if bits < 64 && bits > 0 {
		var fits *term
		if fn == "ParseInt" {
			lo := mkConst(uint64(-(int64(1) << (bits - 1))), 64)
			hi := mkConst(uint64((int64(1)<<(bits-1))-1), 64)
			fits = mkAnd(mkPred(opSLe, lo, v), mkPred(opSLe, v, hi))
		} else {
			fits = mkPred(opULe, v, mkConst((uint64(1)<<bits)-1, 64))
		}
		i.assertTerm(mkOr(mkNot(ok), fits))
	}
	nc := ufCall{fn: fn, text: args[0], base: base, bits: bits, val: v, ok: ok}
	for _, c := range i.ps.ufCalls {
		if c.fn == fn && c.base == base && strEqTerm(c.text, args[0]).isTrue() {
			i.linkUF(c, nc)
		}
	}
	i.ps.ufCalls = append(i.ps.ufCalls, nc)
	i.ps.model = nil
	var n value
	if fn == "ParseInt" {
		n = sym{v, types.Int64}
	} else {
		n = sym{v, types.Uint64}
	}
	if i.decide(ok) {
		return tuple{n, iface{}}
	}
	return tuple{concreteOfKind(0, scalarKind(n)), i.mkError("strconv." + fn + ": parsing <symbolic>: invalid syntax")}
}

// ufFits: value v is representable in bits for ParseInt / ParseUint.
func ufFits(fn string, v *term, bits int) *term {
	if bits <= 0 || bits >= 64 {
		return termTrue
	}
	if fn == "ParseInt" {
		lo := mkConst(uint64(-(int64(1) << (bits - 1))), 64)
		hi := mkConst(uint64((int64(1)<<(bits-1))-1), 64)
		return mkAnd(mkPred(opSLe, lo, v), mkPred(opSLe, v, hi))
	}
	return mkPred(opULe, v, mkConst((uint64(1)<<bits)-1, 64))
}

// linkUF asserts the relation between two results of the same strconv
// function on the same text and base with different bit sizes.
func (i *interpreter) linkUF(a, b ufCall) {
	if a.bits == b.bits {
		i.assertTerm(mkPred(opEq, a.ok, b.ok))
		i.assertTerm(mkOr(mkNot(a.ok), mkPred(opEq, a.val, b.val)))
		return
	}
	narrow, wide := a, b
	if a.bits > b.bits {
		narrow, wide = b, a
	}
	// narrow accepts iff wide accepts a value that fits the narrow size
	i.assertTerm(mkPred(opEq, narrow.ok, mkAnd(wide.ok, ufFits(narrow.fn, wide.val, narrow.bits))))
	i.assertTerm(mkOr(mkNot(narrow.ok), mkPred(opEq, narrow.val, wide.val)))
}

type ufCall struct {
	fn   string
	text value
	base int
	bits int
	val  *term
	ok   *term
}

// ---------------------------------------------------------------------
// sort

func ext۰sort۰Strings(fr *frame, args []value) value {
	x := args[0].([]value)
	for _, s := range x {
		if _, ok := s.(string); !ok {
			panic(unsupported("sort.Strings on symbolic strings"))
		}
	}
	sort.SliceStable(x, func(a, b int) bool { return x[a].(string) < x[b].(string) })
	return nil
}

func ext۰sort۰Ints(fr *frame, args []value) value {
	x := args[0].([]value)
	sort.SliceStable(x, func(a, b int) bool { return x[a].(int) < x[b].(int) })
	return nil
}

// ---------------------------------------------------------------------
// sync.Map (an association list per map object, held in the path state)

func (i *interpreter) syncMap(p *value) *omap {
	if i.ps.syncMaps == nil {
		i.ps.syncMaps = map[*value]*omap{}
	}
	m, ok := i.ps.syncMaps[p]
	if !ok {
		m = makeMap(types.NewInterfaceType(nil, nil).Complete()).(*omap)
		i.ps.syncMaps[p] = m
	}
	return m
}

func ext۰sync۰Map۰Load(fr *frame, args []value) value {
	m := fr.i.syncMap(args[0].(*value))
	if e := m.find(fr.i, args[1]); e != nil {
		return tuple{e.val, true}
	}
	return tuple{iface{}, false}
}

func ext۰sync۰Map۰Store(fr *frame, args []value) value {
	// sync.Map is the one structure designed for shared mutation: it is
	// exempt from the frozen-store trap (its transparency is checked
	// separately by the history-independence harnesses)
	m := fr.i.syncMap(args[0].(*value))
	m.insert(fr.i, args[1], args[2])
	return nil
}

func ext۰sync۰Map۰LoadOrStore(fr *frame, args []value) value {
	m := fr.i.syncMap(args[0].(*value))
	if e := m.find(fr.i, args[1]); e != nil {
		return tuple{e.val, true}
	}
	m.insert(fr.i, args[1], args[2])
	return tuple{args[2], false}
}

// structFieldIndex finds a field of a struct type of an imported package.
func (i *interpreter) structFieldIndex(pkg, typ, field string) int {
	p := i.prog.ImportedPackage(pkg)
	if p == nil {
		panic(unsupported("package " + pkg + " not loaded"))
	}
	st := p.Pkg.Scope().Lookup(typ).Type().Underlying().(*types.Struct)
	for k := 0; k < st.NumFields(); k++ {
		if st.Field(k).Name() == field {
			return k
		}
	}
	panic(unsupported("no field " + field + " in " + pkg + "." + typ))
}

// sync.Pool: a path is single-threaded; the model is the behaviour that is
// most adverse to code that keeps using an object after Put: Get hands back
// the most recently Put object (LIFO, as the per-P private slot of the real
// pool does in one goroutine) and only calls New when the pool is empty.
func ext۰sync۰Pool۰Get(fr *frame, args []value) value {
	key := args[0].(*value)
	if items := fr.i.ps.pools[key]; len(items) > 0 {
		x := items[len(items)-1]
		fr.i.ps.pools[key] = items[:len(items)-1]
		return x
	}
	pool := (*key).(structure)
	newFn := pool[fr.i.structFieldIndex("sync", "Pool", "New")]
	switch f := newFn.(type) {
	case *ssa.Function:
		if f == nil {
			return iface{}
		}
	case nil:
		return iface{}
	}
	return call(fr.i, fr, token.NoPos, newFn, nil)
}

func ext۰sync۰Pool۰Put(fr *frame, args []value) value {
	key := args[0].(*value)
	if fr.i.ps.pools == nil {
		fr.i.ps.pools = map[*value][]value{}
	}
	fr.i.ps.pools[key] = append(fr.i.ps.pools[key], args[1])
	return nil
}

// ---------------------------------------------------------------------
// regexp: compiled patterns are host handles; matching a concrete string is
// native, matching a symbolic string goes through the reference matcher
// (refre.go), itself validated natively against package regexp.

func (i *interpreter) regexpValue(re *regexp.Regexp) value {
	// *regexp.Regexp is represented as a pointer to a cell holding the handle.
	var cell value = hostHandle{re}
	return &cell
}

func hostRegexp(v value) *regexp.Regexp {
	p := v.(*value)
	if p == nil {
		panic(targetPanicMsg("runtime error: invalid memory address or nil pointer dereference"))
	}
	re, ok := (*p).(hostHandle).p.(*regexp.Regexp)
	if !ok {
		panic(unsupported("operation on a regexp compiled from a symbolic pattern"))
	}
	return re
}

// reFind dispatches FindStringSubmatchIndex over the three cases: native
// regexp on a concrete subject, reference matcher on a symbolic subject, and
// reference matcher with holes for a symbolically compiled pattern.
func (i *interpreter) reFind(v value, subject value) []int {
	p := v.(*value)
	if p == nil {
		panic(targetPanicMsg("runtime error: invalid memory address or nil pointer dereference"))
	}
	switch h := (*p).(hostHandle).p.(type) {
	case *regexp.Regexp:
		var r []int
		if s, ok := subject.(string); ok {
			r = h.FindStringSubmatchIndex(s)
		} else {
			r = i.refreFind(h, strBytes(subject))
		}
		if i.ps.trackPoss && !i.ps.possDiff {
			pr := i.possessiveFindTree(parseTree(h.String()), nil, strBytes(subject))
			if (r == nil) != (pr == nil) || (r != nil && (r[0] != pr[0] || r[1] != pr[1])) {
				i.ps.possDiff = true
			}
		}
		return r
	case *symRegexp:
		return i.refreFindTree(h.tree, h.holes, strBytes(subject))
	}
	panic("reFind: bad handle")
}

func ext۰regexp۰Compile(fr *frame, args []value) value {
	pat, ok := args[0].(string)
	if !ok {
		return fr.i.compileSymbolicPattern(args[0].(symstr))
	}
	re, err := regexp.Compile(pat)
	if err != nil {
		return tuple{(*value)(nil), fr.i.mkError(err.Error())}
	}
	return tuple{fr.i.regexpValue(re), iface{}}
}

func ext۰regexp۰MustCompile(fr *frame, args []value) value {
	pat, ok := args[0].(string)
	if !ok {
		panic(unsupported("regexp.MustCompile on a symbolic pattern"))
	}
	re, err := regexp.Compile(pat)
	if err != nil {
		panic(targetPanicMsg("regexp: Compile(" + strconv.Quote(pat) + "): " + err.Error()))
	}
	return fr.i.regexpValue(re)
}

func ext۰regexp۰QuoteMeta(fr *frame, args []value) value {
	if s, ok := args[0].(string); ok {
		return regexp.QuoteMeta(s)
	}
	const special = "\\.+*?()|[]{}^$"
	var out []value
	for _, b := range strBytes(args[0]) {
		if c, ok := b.(uint8); ok {
			if strings.IndexByte(special, c) >= 0 {
				out = append(out, uint8('\\'))
			}
			out = append(out, c)
			continue
		}
		isSp := termFalse
		for j := 0; j < len(special); j++ {
			isSp = mkOr(isSp, mkPred(opEq, termOf(b), mkConst(uint64(special[j]), 8)))
		}
		if fr.i.decide(isSp) {
			out = append(out, uint8('\\'))
		}
		out = append(out, b)
	}
	return mkStr(out)
}

func ext۰regexp۰Regexp۰String(fr *frame, args []value) value {
	return hostRegexp(args[0]).String()
}

func ext۰regexp۰Regexp۰NumSubexp(fr *frame, args []value) value {
	return hostRegexp(args[0]).NumSubexp()
}

func intsToValues(xs []int) []value {
	if xs == nil {
		return nil
	}
	out := make([]value, len(xs))
	for j, x := range xs {
		out[j] = x
	}
	return out
}

func ext۰regexp۰Regexp۰FindStringSubmatchIndex(fr *frame, args []value) value {
	return intsToValues(fr.i.reFind(args[0], args[1]))
}

// FindAllStringSubmatch on a concrete text (patterns, never input bytes).
func ext۰regexp۰Regexp۰FindAllStringSubmatch(fr *frame, args []value) value {
	re := hostRegexp(args[0])
	s, ok := args[1].(string)
	if !ok {
		panic(unsupported("FindAllStringSubmatch on a symbolic string"))
	}
	n := int(fr.i.concretize(args[2], nil))
	all := re.FindAllStringSubmatch(s, n)
	if all == nil {
		return []value(nil)
	}
	out := make([]value, len(all))
	for j, m := range all {
		out[j] = stringsToValues(m)
	}
	return out
}

func ext۰regexp۰Regexp۰FindStringSubmatch(fr *frame, args []value) value {
	re := hostRegexp(args[0])
	if s, ok := args[1].(string); ok {
		return stringsToValues(re.FindStringSubmatch(s))
	}
	b := args[1].(symstr).b
	idx := fr.i.refreFind(re, b)
	if idx == nil {
		return []value(nil)
	}
	out := make([]value, len(idx)/2)
	for j := range out {
		if idx[2*j] < 0 {
			out[j] = ""
		} else {
			out[j] = mkStr(b[idx[2*j]:idx[2*j+1]])
		}
	}
	return out
}

func ext۰regexp۰Regexp۰FindStringIndex(fr *frame, args []value) value {
	re := hostRegexp(args[0])
	if s, ok := args[1].(string); ok {
		return intsToValues(re.FindStringIndex(s))
	}
	idx := fr.i.refreFind(re, args[1].(symstr).b)
	if idx == nil {
		return []value(nil)
	}
	return intsToValues(idx[:2])
}

func ext۰regexp۰Regexp۰MatchString(fr *frame, args []value) value {
	re := hostRegexp(args[0])
	if s, ok := args[1].(string); ok {
		return re.MatchString(s)
	}
	return fr.i.refreFind(re, args[1].(symstr).b) != nil
}

// ReplaceAllStringFunc with a target callback; concrete source only.
func ext۰regexp۰Regexp۰ReplaceAllStringFunc(fr *frame, args []value) value {
	re := hostRegexp(args[0])
	src, ok := args[1].(string)
	if !ok {
		panic(unsupported("ReplaceAllStringFunc on a symbolic string"))
	}
	// Build the result from match positions so that the callback may return
	// symbolic strings.
	var out []value
	last := 0
	for _, loc := range re.FindAllStringIndex(src, -1) {
		out = append(out, strBytes(src[last:loc[0]])...)
		r := call(fr.i, fr, token.NoPos, args[2], []value{src[loc[0]:loc[1]]})
		out = append(out, strBytes(r)...)
		last = loc[1]
	}
	out = append(out, strBytes(src[last:])...)
	return mkStr(out)
}

// ---------------------------------------------------------------------
// fmt: a small printf over interpreter values.

func (i *interpreter) formatValue(fr *frame, verb byte, flags string, arg value) []value {
	itf, isIface := arg.(iface)
	var v value = arg
	var t types.Type
	if isIface {
		if itf.t == nil {
			if verb == 'T' {
				return strBytes("<nil>")
			}
			return strBytes("<nil>")
		}
		v, t = itf.v, itf.t
	}
	if verb == 'T' {
		return strBytes(reflectTypeString(t))
	}
	// error / Stringer / GoStringer
	if t != nil && verb != 'd' && verb != 'x' && verb != 'c' && verb != 't' && verb != 'p' {
		meth := ""
		if verb == 'v' && strings.Contains(flags, "#") {
			if i.hasMethod(t, "GoString") {
				meth = "GoString"
			}
		} else if i.hasMethod(t, "Error") && types.Implements(t, errorInterface()) {
			meth = "Error"
		} else if i.hasMethod(t, "String") {
			meth = "String"
		}
		if meth != "" {
			if p, ok := v.(*value); ok && p == nil {
				return strBytes("<nil>")
			}
			s := i.callStringMethod(fr, t, v, meth)
			if verb == 'q' {
				return i.quoteValue(s)
			}
			return strBytes(s)
		}
	}
	switch x := v.(type) {
	case string, symstr:
		if verb == 'q' {
			return i.quoteValue(x)
		}
		if verb == 'x' {
			if s, ok := x.(string); ok {
				return strBytes(fmt.Sprintf("%x", s))
			}
			panic(unsupported("%x of a symbolic string"))
		}
		return strBytes(x)
	case sym:
		if x.k == types.Bool {
			panic(unsupported("formatting a symbolic bool"))
		}
		if verb == 'c' || verb == 'q' {
			b := encodeRuneSym(i, symConvInt(x, types.Int32))
			if verb == 'q' {
				panic(unsupported("%q of a symbolic rune"))
			}
			return b
		}
		if verb != 'd' && verb != 'v' {
			// %x, %o, %b, %U ... of a symbolic integer are not modelled: the
			// path ends as unsupported rather than with a wrong rendering
			panic(unsupported("printf %" + string(verb) + " of a symbolic integer"))
		}
		return i.formatSymInt(x)
	case bool:
		return strBytes(fmt.Sprintf("%"+flags+string(verb), x))
	case *value:
		if x == nil {
			return strBytes("<nil>")
		}
		if verb == 'v' || verb == 's' {
			// pointer to struct prints as &{...}
			return append(strBytes("&"), i.formatValue(fr, verb, flags, iface{typeparamsDeref(t), *x})...)
		}
		return strBytes("0xc000000000")
	case structure:
		st, ok := t.Underlying().(*types.Struct)
		out := strBytes("{")
		for j, f := range x {
			if j > 0 {
				out = append(out, ' ')
			}
			var ft types.Type
			if ok {
				ft = st.Field(j).Type()
				if strings.Contains(flags, "+") {
					out = append(out, strBytes(st.Field(j).Name()+":")...)
				}
			}
			out = append(out, i.formatValue(fr, 'v', flags, wrapIface(ft, f))...)
		}
		return append(out, '}')
	case []value:
		var et types.Type
		if t != nil {
			if sl, ok := t.Underlying().(*types.Slice); ok {
				et = sl.Elem()
			}
		}
		if et != nil {
			if b, ok := et.Underlying().(*types.Basic); ok && b.Kind() == types.Uint8 && (verb == 's' || verb == 'q') {
				s := mkStr(append([]value(nil), x...))
				if verb == 'q' {
					return i.quoteValue(s)
				}
				return strBytes(s)
			}
		}
		out := strBytes("[")
		for j, f := range x {
			if j > 0 {
				out = append(out, ' ')
			}
			out = append(out, i.formatValue(fr, verb, flags, wrapIface(et, f))...)
		}
		return append(out, ']')
	case rtype:
		return strBytes(reflectTypeString(x.t))
	case float32, float64:
		return strBytes(fmt.Sprintf("%"+flags+string(verb), x))
	case *closure, *ssa.Function:
		return strBytes("0xfunc")
	case *omap:
		return strBytes("map[...]")
	case hostHandle:
		return strBytes(fmt.Sprint(x.p))
	}
	if _, ok := kindOf(v); ok {
		return strBytes(fmt.Sprintf("%"+flags+string(verb), v))
	}
	return strBytes(fmt.Sprintf("%%!%c(%T)", verb, v))
}

func typeparamsDeref(t types.Type) types.Type {
	if t == nil {
		return nil
	}
	if p, ok := t.Underlying().(*types.Pointer); ok {
		return p.Elem()
	}
	return t
}

func wrapIface(t types.Type, v value) value {
	if t == nil {
		return v
	}
	if isInterfaceType(t) {
		return v
	}
	return iface{t, v}
}

var errIface *types.Interface

func errorInterface() *types.Interface {
	if errIface == nil {
		errIface = types.Universe.Lookup("error").Type().Underlying().(*types.Interface)
	}
	return errIface
}

func (i *interpreter) hasMethod(t types.Type, name string) bool {
	mset := i.prog.MethodSets.MethodSet(t)
	for j := 0; j < mset.Len(); j++ {
		if mset.At(j).Obj().Name() == name {
			sig := mset.At(j).Type().(*types.Signature)
			if sig.Params().Len() == 0 && sig.Results().Len() == 1 {
				if b, ok := sig.Results().At(0).Type().Underlying().(*types.Basic); ok && b.Kind() == types.String {
					return true
				}
			}
		}
	}
	return false
}

func (i *interpreter) callStringMethod(fr *frame, t types.Type, recv value, name string) value {
	if t == errorType {
		return recv
	}
	mset := i.prog.MethodSets.MethodSet(t)
	for j := 0; j < mset.Len(); j++ {
		if mset.At(j).Obj().Name() == name {
			fn := i.prog.MethodValue(mset.At(j))
			return call(i, fr, token.NoPos, fn, []value{recv})
		}
	}
	panic("callStringMethod: no method " + name)
}

func (i *interpreter) quoteValue(s value) []value {
	if cs, ok := s.(string); ok {
		return strBytes(strconv.Quote(cs))
	}
	// Symbolic: the quoted form depends on every byte; keep it opaque but
	// injective enough for error messages: bytes between quotes, unescaped.
	i.modelsHit["fmt %q of symbolic string (quotes added, bytes not escaped)"] = true
	out := []value{uint8('"')}
	out = append(out, strBytes(s)...)
	return append(out, uint8('"'))
}

// formatSymInt renders a symbolic integer in decimal by forking on its value
// (bounded by the concretisation fan-out).
func (i *interpreter) formatSymInt(x sym) []value {
	c := i.concretize(x, nil)
	if kindSigned(x.k) {
		return strBytes(strconv.FormatInt(c, 10))
	}
	return strBytes(strconv.FormatUint(uint64(c), 10))
}

func (i *interpreter) sprintf(fr *frame, format value, args []value) value {
	f, ok := format.(string)
	if !ok {
		panic(unsupported("printf with symbolic format"))
	}
	var out []value
	argi := 0
	for p := 0; p < len(f); p++ {
		c := f[p]
		if c != '%' {
			out = append(out, c)
			continue
		}
		p++
		if p >= len(f) {
			out = append(out, strBytes("%!(NOVERB)")...)
			break
		}
		start := p
		for p < len(f) && strings.IndexByte("+-# 0123456789.*", f[p]) >= 0 {
			p++
		}
		if p >= len(f) {
			out = append(out, strBytes("%!(NOVERB)")...)
			break
		}
		flags := f[start:p]
		verb := f[p]
		if verb == '%' {
			out = append(out, uint8('%'))
			continue
		}
		if strings.Contains(flags, "*") {
			panic(unsupported("printf * width"))
		}
		if argi >= len(args) {
			out = append(out, strBytes("%!"+string(verb)+"(MISSING)")...)
			continue
		}
		if verb == 'w' {
			verb = 'v'
		}
		piece := i.formatValue(fr, verb, flags, args[argi])
		argi++
		// width/padding only when the piece is concrete
		if w := strings.TrimLeft(flags, "+-# "); w != "" && w != "0" {
			if s, ok := mkStr(piece).(string); ok {
				pad := fmt.Sprintf("%"+strings.Replace(flags, "#", "", -1)+"s", s)
				piece = strBytes(pad)
			}
		}
		out = append(out, piece...)
	}
	if argi < len(args) {
		out = append(out, strBytes("%!(EXTRA)")...)
	}
	return mkStr(out)
}

func ext۰fmt۰Sprintf(fr *frame, args []value) value {
	return fr.i.sprintf(fr, args[0], args[1].([]value))
}

func ext۰fmt۰Errorf(fr *frame, args []value) value {
	msg := fr.i.sprintf(fr, args[0], args[1].([]value))
	// %w wrapping: keep the first wrapped error for Unwrap.
	f := args[0].(string)
	if idx := strings.Index(f, "%w"); idx >= 0 {
		n := 0
		for p := 0; p < idx; p++ {
			if f[p] == '%' && p+1 < len(f) && f[p+1] != '%' {
				n++
			} else if f[p] == '%' {
				p++
			}
		}
		if n < len(args[1].([]value)) {
			if pkg := fr.i.prog.ImportedPackage("fmt"); pkg != nil {
				t := pkg.Type("wrapError").Object().Type()
				var cell value = structure{msg, args[1].([]value)[n]}
				return iface{types.NewPointer(t), &cell}
			}
		}
	}
	return fr.i.mkError(msg)
}

func ext۰fmt۰wrapError۰Error(fr *frame, args []value) value {
	return (*args[0].(*value)).(structure)[0]
}

func ext۰fmt۰wrapError۰Unwrap(fr *frame, args []value) value {
	return (*args[0].(*value)).(structure)[1]
}

func ext۰fmt۰Sprint(fr *frame, args []value) value {
	var out []value
	wasStr := false
	for j, arg := range args[0].([]value) {
		x := arg.(iface).v
		s := isStr(x)
		if j > 0 && !wasStr && !s {
			out = append(out, uint8(' '))
		}
		wasStr = s
		out = append(out, fr.i.formatValue(fr, 'v', "", arg)...)
	}
	return mkStr(out)
}

// fmt.Fprintf(w, ...) → formats and calls w.Write.
func ext۰fmt۰Fprintf(fr *frame, args []value) value {
	s := fr.i.sprintf(fr, args[1], args[2].([]value))
	w := args[0].(iface)
	if w.t == nil {
		fr.i.throwNilDeref()
	}
	b := strBytes(s)
	mset := fr.i.prog.MethodSets.MethodSet(w.t)
	for j := 0; j < mset.Len(); j++ {
		if mset.At(j).Obj().Name() == "Write" {
			fn := fr.i.prog.MethodValue(mset.At(j))
			return call(fr.i, fr, token.NoPos, fn, []value{w.v, append([]value(nil), b...)})
		}
	}
	panic(unsupported("Fprintf to a writer without Write"))
}

// ---------------------------------------------------------------------

// errors.Is: walk the Unwrap chain comparing with ==, calling Is methods.
func ext۰errors۰Is(fr *frame, args []value) value {
	err, target := args[0].(iface), args[1].(iface)
	for depth := 0; depth < 100; depth++ {
		if err.t == nil {
			return target.t == nil
		}
		if sameType(err.t, target.t) && types.Comparable(err.t) {
			if c := equalsTerm(err.t, err.v, target.v); c.isConst() {
				if c.k == 1 {
					return true
				}
			} else if fr.i.decide(c) {
				return true
			}
		}
		next := iface{}
		mset := fr.i.prog.MethodSets.MethodSet(err.t)
		for j := 0; j < mset.Len(); j++ {
			sel := mset.At(j)
			sig := sel.Type().(*types.Signature)
			switch sel.Obj().Name() {
			case "Is":
				if sig.Params().Len() == 1 && sig.Results().Len() == 1 {
					r := call(fr.i, fr, token.NoPos, fr.i.prog.MethodValue(sel), []value{err.v, target})
					if b, ok := r.(bool); ok && b {
						return true
					}
				}
			case "Unwrap":
				if sig.Params().Len() == 0 && sig.Results().Len() == 1 {
					if r, ok := call(fr.i, fr, token.NoPos, fr.i.prog.MethodValue(sel), []value{err.v}).(iface); ok {
						next = r
					}
				}
			}
		}
		if next.t == nil {
			return false
		}
		err = next
	}
	return false
}

func ext۰unicode۰IsLower(fr *frame, args []value) value {
	return unicodePred(unicode.IsLower)(fr, args)
}

func registerModels() {
	for k, v := range map[string]externalFn{
		"strings.Count":         ext۰strings۰Count,
		"strings.Index":         ext۰strings۰Index,
		"strings.LastIndex":     ext۰strings۰LastIndex,
		"strings.IndexByte":     ext۰strings۰IndexByte,
		"strings.LastIndexByte": ext۰strings۰LastIndexByte,
		"strings.Contains":      ext۰strings۰Contains,
		"strings.EqualFold":     ext۰strings۰EqualFold,
		"strings.Compare": func(fr *frame, args []value) value {
			if allConcreteStrings(args[0], args[1]) {
				return strings.Compare(args[0].(string), args[1].(string))
			}
			panic(unsupported("strings.Compare on symbolic strings"))
		},
		"strings.ToUpper":                          ext۰strings۰ToUpper,
		"strings.ToLower":                          ext۰strings۰ToLower,
		"strings.Repeat":                           ext۰strings۰Repeat,
		"strings.Join":                             ext۰strings۰Join,
		"strings.Split":                            ext۰strings۰Split,
		"strings.Replace":                          ext۰strings۰Replace,
		"strings.ReplaceAll":                       ext۰strings۰ReplaceAll,
		"strings.TrimSpace":                        ext۰strings۰TrimSpace,
		"strings.Fields":                           ext۰strings۰Fields,
		"(*strings.Builder).WriteString":           ext۰strings۰Builder۰WriteString,
		"(*strings.Builder).WriteByte":             ext۰strings۰Builder۰WriteByte,
		"(*strings.Builder).WriteRune":             ext۰strings۰Builder۰WriteRune,
		"(*strings.Builder).Write":                 ext۰strings۰Builder۰Write,
		"(*strings.Builder).String":                ext۰strings۰Builder۰String,
		"(*strings.Builder).Len":                   ext۰strings۰Builder۰Len,
		"(*strings.Builder).Grow":                  ext۰strings۰Builder۰Grow,
		"(*strings.Builder).Reset":                 ext۰strings۰Builder۰Reset,
		"internal/bytealg.IndexByteString":         func(fr *frame, a []value) value { return ext۰strings۰IndexByte(fr, a) },
		"internal/bytealg.IndexByte":               ext۰bytealg۰IndexByte,
		"internal/bytealg.CountString":             ext۰bytealg۰CountString,
		"internal/bytealg.Count":                   ext۰bytealg۰Count,
		"internal/bytealg.IndexString":             ext۰bytealg۰IndexString,
		"internal/stringslite.Clone":               func(fr *frame, args []value) value { return args[0] },
		"strings.Clone":                            func(fr *frame, args []value) value { return args[0] },
		"internal/stringslite.Index":               ext۰strings۰Index,
		"internal/stringslite.IndexByte":           ext۰strings۰IndexByte,
		"bytes.Equal":                              ext۰bytes۰Equal,
		"bytes.IndexByte":                          ext۰bytes۰IndexByte,
		"io.Copy":                                  ext۰io۰Copy,
		"unicode.IsLower":                          unicodePred(unicode.IsLower),
		"unicode.IsUpper":                          unicodePred(unicode.IsUpper),
		"unicode.IsLetter":                         unicodePred(unicode.IsLetter),
		"unicode.IsDigit":                          unicodePred(unicode.IsDigit),
		"unicode.IsSpace":                          unicodePred(unicode.IsSpace),
		"unicode.IsPrint":                          unicodePred(unicode.IsPrint),
		"unicode.IsGraphic":                        unicodePred(unicode.IsGraphic),
		"unicode.ToUpper":                          unicodeMap(unicode.ToUpper),
		"unicode.ToLower":                          unicodeMap(unicode.ToLower),
		"unicode.SimpleFold":                       unicodeMap(unicode.SimpleFold),
		"unicode/utf8.DecodeRuneInString":          ext۰utf8۰DecodeRuneInString,
		"unicode/utf8.DecodeRune":                  ext۰utf8۰DecodeRune,
		"unicode/utf8.DecodeLastRuneInString":      ext۰utf8۰DecodeLastRuneInString,
		"unicode/utf8.RuneCountInString":           ext۰utf8۰RuneCountInString,
		"strconv.ParseInt":                         ext۰strconv۰ParseInt,
		"strconv.ParseUint":                        ext۰strconv۰ParseUint,
		"strconv.ParseFloat":                       ext۰strconv۰ParseFloat,
		"strconv.Atoi":                             ext۰strconv۰Atoi,
		"strconv.Itoa":                             ext۰strconv۰Itoa,
		"strconv.Quote":                            ext۰strconv۰Quote,
		"sort.Strings":                             ext۰sort۰Strings,
		"sort.Ints":                                ext۰sort۰Ints,
		"(*sync.Map).Load":                         ext۰sync۰Map۰Load,
		"(*sync.Map).Store":                        ext۰sync۰Map۰Store,
		"(*sync.Map).LoadOrStore":                  ext۰sync۰Map۰LoadOrStore,
		"(*sync.Pool).Get":                         ext۰sync۰Pool۰Get,
		"(*sync.Pool).Put":                         ext۰sync۰Pool۰Put,
		"(*sync.WaitGroup).Add":                    func(fr *frame, args []value) value { return nil },
		"(*sync.WaitGroup).Done":                   func(fr *frame, args []value) value { return nil },
		"(*sync.WaitGroup).Wait":                   func(fr *frame, args []value) value { return nil },
		"regexp.Compile":                           ext۰regexp۰Compile,
		"regexp.MustCompile":                       ext۰regexp۰MustCompile,
		"regexp.QuoteMeta":                         ext۰regexp۰QuoteMeta,
		"(*regexp.Regexp).String":                  ext۰regexp۰Regexp۰String,
		"(*regexp.Regexp).NumSubexp":               ext۰regexp۰Regexp۰NumSubexp,
		"(*regexp.Regexp).FindStringSubmatchIndex": ext۰regexp۰Regexp۰FindStringSubmatchIndex,
		"(*regexp.Regexp).FindStringSubmatch":      ext۰regexp۰Regexp۰FindStringSubmatch,
		"(*regexp.Regexp).FindAllStringSubmatch":   ext۰regexp۰Regexp۰FindAllStringSubmatch,
		"(*regexp.Regexp).FindStringIndex":         ext۰regexp۰Regexp۰FindStringIndex,
		"(*regexp.Regexp).MatchString":             ext۰regexp۰Regexp۰MatchString,
		"(*regexp.Regexp).ReplaceAllStringFunc":    ext۰regexp۰Regexp۰ReplaceAllStringFunc,
		"fmt.Sprintf":                              ext۰fmt۰Sprintf,
		"fmt.Errorf":                               ext۰fmt۰Errorf,
		"fmt.Sprint":                               ext۰fmt۰Sprint,
		"fmt.Fprintf":                              ext۰fmt۰Fprintf,
		// environment stub: writing to a process stream succeeds and has no effect
		"(*os.File).Write":        func(fr *frame, args []value) value { return tuple{len(args[1].([]value)), iface{}} },
		"(*fmt.wrapError).Error":  ext۰fmt۰wrapError۰Error,
		"(*fmt.wrapError).Unwrap": ext۰fmt۰wrapError۰Unwrap,
		"(reflect.Kind).String":   ext۰reflect۰Kind۰String,
		"errors.Is":               ext۰errors۰Is,
	} {
		externals[k] = v
	}
}
