// Copyright 2013 The Go Authors. All rights reserved.
// Use of this source code is governed by a BSD-style
// license that can be found in the LICENSE file.

package interp

import (
	"bytes"
	"fmt"
	"go/constant"
	"go/token"
	"go/types"
	"os"
	"strings"
	"unsafe"

	"golang.org/x/tools/go/ssa"
	typeparams "verif/gosym/interp/tp"
)

var _ = os.Stderr

// If the target program panics, the interpreter panics with this type.
type targetPanic struct {
	v value
}

func (p targetPanic) String() string {
	return toString(p.v)
}

// If the target program calls exit, the interpreter panics with this type.
type exitPanic int

// constValue returns the value of the constant with the
// dynamic type tag appropriate for c.Type().
func constValue(c *ssa.Const) value {
	if c.Value == nil {
		return zero(c.Type()) // typed zero
	}
	// c is not a type parameter so it's underlying type is basic.

	if t, ok := c.Type().Underlying().(*types.Basic); ok {
		// TODO(adonovan): eliminate untyped constants from SSA form.
		switch t.Kind() {
		case types.Bool, types.UntypedBool:
			return constant.BoolVal(c.Value)
		case types.Int, types.UntypedInt:
			// Assume sizeof(int) is same on host and target.
			return int(c.Int64())
		case types.Int8:
			return int8(c.Int64())
		case types.Int16:
			return int16(c.Int64())
		case types.Int32, types.UntypedRune:
			return int32(c.Int64())
		case types.Int64:
			return c.Int64()
		case types.Uint:
			// Assume sizeof(uint) is same on host and target.
			return uint(c.Uint64())
		case types.Uint8:
			return uint8(c.Uint64())
		case types.Uint16:
			return uint16(c.Uint64())
		case types.Uint32:
			return uint32(c.Uint64())
		case types.Uint64:
			return c.Uint64()
		case types.Uintptr:
			// Assume sizeof(uintptr) is same on host and target.
			return uintptr(c.Uint64())
		case types.Float32:
			return float32(c.Float64())
		case types.Float64, types.UntypedFloat:
			return c.Float64()
		case types.Complex64:
			return complex64(c.Complex128())
		case types.Complex128, types.UntypedComplex:
			return c.Complex128()
		case types.String, types.UntypedString:
			if c.Value.Kind() == constant.String {
				return constant.StringVal(c.Value)
			}
			return string(rune(c.Int64()))
		}
	}

	panic(fmt.Sprintf("constValue: %s", c))
}

// fitsInt returns true if x fits in type int according to sizes.
func fitsInt(x int64, sizes types.Sizes) bool {
	intSize := sizes.Sizeof(types.Typ[types.Int])
	if intSize < sizes.Sizeof(types.Typ[types.Int64]) {
		maxInt := int64(1)<<((intSize*8)-1) - 1
		minInt := -int64(1) << ((intSize * 8) - 1)
		return minInt <= x && x <= maxInt
	}
	return true
}

// asInt64 converts x, which must be an integer, to an int64.
//
// Callers that need a value directly usable as an int should combine this with fitsInt().
func asInt64(x value) int64 {
	switch x := x.(type) {
	case int:
		return int64(x)
	case int8:
		return int64(x)
	case int16:
		return int64(x)
	case int32:
		return int64(x)
	case int64:
		return x
	case uint:
		return int64(x)
	case uint8:
		return int64(x)
	case uint16:
		return int64(x)
	case uint32:
		return int64(x)
	case uint64:
		return int64(x)
	case uintptr:
		return int64(x)
	}
	panic(fmt.Sprintf("cannot convert %T to int64", x))
}

// asUint64 converts x, which must be an unsigned integer, to a uint64
// suitable for use as a bitwise shift count.
func asUint64(x value) uint64 {
	switch x := x.(type) {
	case uint:
		return uint64(x)
	case uint8:
		return uint64(x)
	case uint16:
		return uint64(x)
	case uint32:
		return uint64(x)
	case uint64:
		return x
	case uintptr:
		return uint64(x)
	}
	panic(fmt.Sprintf("cannot convert %T to uint64", x))
}

// asUnsigned returns the value of x, which must be an integer type, as its equivalent unsigned type,
// and returns true if x is non-negative.
func asUnsigned(x value) (value, bool) {
	switch x := x.(type) {
	case int:
		return uint(x), x >= 0
	case int8:
		return uint8(x), x >= 0
	case int16:
		return uint16(x), x >= 0
	case int32:
		return uint32(x), x >= 0
	case int64:
		return uint64(x), x >= 0
	case uint, uint8, uint16, uint32, uint64, uintptr:
		return x, true
	}
	panic(fmt.Sprintf("cannot convert %T to unsigned", x))
}

// zero returns a new "zero" value of the specified type.
func zero(t types.Type) value {
	switch t := t.(type) {
	case *types.Basic:
		if t.Kind() == types.UntypedNil {
			panic("untyped nil has no zero value")
		}
		if t.Info()&types.IsUntyped != 0 {
			// TODO(adonovan): make it an invariant that
			// this is unreachable.  Currently some
			// constants have 'untyped' types when they
			// should be defaulted by the typechecker.
			t = types.Default(t).(*types.Basic)
		}
		switch t.Kind() {
		case types.Bool:
			return false
		case types.Int:
			return int(0)
		case types.Int8:
			return int8(0)
		case types.Int16:
			return int16(0)
		case types.Int32:
			return int32(0)
		case types.Int64:
			return int64(0)
		case types.Uint:
			return uint(0)
		case types.Uint8:
			return uint8(0)
		case types.Uint16:
			return uint16(0)
		case types.Uint32:
			return uint32(0)
		case types.Uint64:
			return uint64(0)
		case types.Uintptr:
			return uintptr(0)
		case types.Float32:
			return float32(0)
		case types.Float64:
			return float64(0)
		case types.Complex64:
			return complex64(0)
		case types.Complex128:
			return complex128(0)
		case types.String:
			return ""
		case types.UnsafePointer:
			return unsafe.Pointer(nil)
		default:
			panic(fmt.Sprint("zero for unexpected type:", t))
		}
	case *types.Pointer:
		return (*value)(nil)
	case *types.Array:
		a := make(array, t.Len())
		for i := range a {
			a[i] = zero(t.Elem())
		}
		return a
	case *types.Named:
		return zero(t.Underlying())
	case *types.Alias:
		return zero(types.Unalias(t))
	case *types.Interface:
		return iface{} // nil type, methodset and value
	case *types.Slice:
		return []value(nil)
	case *types.Struct:
		s := make(structure, t.NumFields())
		for i := range s {
			s[i] = zero(t.Field(i).Type())
		}
		return s
	case *types.Tuple:
		if t.Len() == 1 {
			return zero(t.At(0).Type())
		}
		s := make(tuple, t.Len())
		for i := range s {
			s[i] = zero(t.At(i).Type())
		}
		return s
	case *types.Chan:
		return chan value(nil)
	case *types.Map:
		return (*omap)(nil)
	case *types.Signature:
		return (*ssa.Function)(nil)
	}
	panic(fmt.Sprint("zero: unexpected ", t))
}

// slice returns x[lo:hi:max].  Any of lo, hi and max may be nil.
// Symbolic bounds are concretised by forking; the out-of-range side raises
// the Go run-time panic.
func slice(fr *frame, x, lo, hi, max value) value {
	var Len, Cap int
	switch x := x.(type) {
	case string:
		Len = len(x)
		Cap = Len
	case symstr:
		Len = len(x.b)
		Cap = Len
	case []value:
		Len = len(x)
		Cap = cap(x)
	case *value: // *array
		if x == nil {
			fr.i.throwNilDeref()
		}
		a := (*x).(array)
		Len = len(a)
		Cap = cap(a)
	}
	i := fr.i
	bound := func(v value, lower int64, upper int64) int64 {
		if sv, ok := v.(sym); ok {
			w := sv.t.w
			var in *term
			if kindSigned(sv.k) {
				in = mkAnd(mkPred(opSLe, mkConst(uint64(lower), w), sv.t), mkPred(opSLe, sv.t, mkConst(uint64(upper), w)))
			} else {
				in = mkAnd(mkPred(opULe, mkConst(uint64(lower), w), sv.t), mkPred(opULe, sv.t, mkConst(uint64(upper), w)))
			}
			if !i.obligation(in) {
				i.throwRuntime(fmt.Sprintf("runtime error: slice bounds out of range [symbolic] with capacity %d", upper))
			}
			cands := make([]int64, 0, upper-lower+1)
			for c := lower; c <= upper; c++ {
				cands = append(cands, c)
			}
			return i.concretize(v, cands)
		}
		c := asInt64(v)
		if c < lower || c > upper {
			i.throwRuntime(fmt.Sprintf("runtime error: slice bounds out of range [%d] with capacity %d", c, upper))
		}
		return c
	}
	m := int64(Cap)
	if max != nil {
		m = bound(max, 0, int64(Cap))
	}
	h := int64(Len)
	if hi != nil {
		h = bound(hi, 0, m)
	} else if h > m {
		i.throwRuntime("runtime error: slice bounds out of range")
	}
	l := int64(0)
	if lo != nil {
		l = bound(lo, 0, h)
	}

	switch x := x.(type) {
	case string:
		return x[l:h]
	case symstr:
		return mkStr(x.b[l:h])
	case []value:
		return x[l:h:m]
	case *value: // *array
		a := (*x).(array)
		return []value(a)[l:h:m]
	}
	panic(fmt.Sprintf("slice: unexpected X type: %T", x))
}

// lookup returns x[idx] where x is a map.
func lookup(fr *frame, instr *ssa.Lookup, x, idx value) value {
	switch x := x.(type) { // map or string
	case *omap:
		tElem := instr.X.Type().Underlying().(*types.Map).Elem()
		v, ok := x.lookup(fr.i, idx, tElem)
		if instr.CommaOk {
			return tuple{v, ok}
		}
		return v
	}
	panic(fmt.Sprintf("unexpected x type in Lookup: %T", x))
}

// binop implements all arithmetic and logical binary operators for
// numeric datatypes and strings.  Both operands must have identical
// dynamic type.
func binop(fr *frame, op token.Token, t types.Type, x, y value) value {
	// symbolic operands
	_, xs := x.(sym)
	_, ys := y.(sym)
	if xs || ys {
		return symBinop(fr, op, x, y)
	}
	if _, ok := x.(symstr); ok {
		return symStrBinop(op, x, y)
	}
	if _, ok := y.(symstr); ok {
		return symStrBinop(op, x, y)
	}
	switch op {
	case token.QUO, token.REM:
		if k, isInt := kindOf(y); isInt && k != types.Bool && asInt64(y) == 0 {
			fr.i.throwRuntime("runtime error: integer divide by zero")
		}
	}
	switch op {
	case token.ADD:
		switch x.(type) {
		case int:
			return x.(int) + y.(int)
		case int8:
			return x.(int8) + y.(int8)
		case int16:
			return x.(int16) + y.(int16)
		case int32:
			return x.(int32) + y.(int32)
		case int64:
			return x.(int64) + y.(int64)
		case uint:
			return x.(uint) + y.(uint)
		case uint8:
			return x.(uint8) + y.(uint8)
		case uint16:
			return x.(uint16) + y.(uint16)
		case uint32:
			return x.(uint32) + y.(uint32)
		case uint64:
			return x.(uint64) + y.(uint64)
		case uintptr:
			return x.(uintptr) + y.(uintptr)
		case float32:
			return x.(float32) + y.(float32)
		case float64:
			return x.(float64) + y.(float64)
		case complex64:
			return x.(complex64) + y.(complex64)
		case complex128:
			return x.(complex128) + y.(complex128)
		case string:
			return x.(string) + y.(string)
		}

	case token.SUB:
		switch x.(type) {
		case int:
			return x.(int) - y.(int)
		case int8:
			return x.(int8) - y.(int8)
		case int16:
			return x.(int16) - y.(int16)
		case int32:
			return x.(int32) - y.(int32)
		case int64:
			return x.(int64) - y.(int64)
		case uint:
			return x.(uint) - y.(uint)
		case uint8:
			return x.(uint8) - y.(uint8)
		case uint16:
			return x.(uint16) - y.(uint16)
		case uint32:
			return x.(uint32) - y.(uint32)
		case uint64:
			return x.(uint64) - y.(uint64)
		case uintptr:
			return x.(uintptr) - y.(uintptr)
		case float32:
			return x.(float32) - y.(float32)
		case float64:
			return x.(float64) - y.(float64)
		case complex64:
			return x.(complex64) - y.(complex64)
		case complex128:
			return x.(complex128) - y.(complex128)
		}

	case token.MUL:
		switch x.(type) {
		case int:
			return x.(int) * y.(int)
		case int8:
			return x.(int8) * y.(int8)
		case int16:
			return x.(int16) * y.(int16)
		case int32:
			return x.(int32) * y.(int32)
		case int64:
			return x.(int64) * y.(int64)
		case uint:
			return x.(uint) * y.(uint)
		case uint8:
			return x.(uint8) * y.(uint8)
		case uint16:
			return x.(uint16) * y.(uint16)
		case uint32:
			return x.(uint32) * y.(uint32)
		case uint64:
			return x.(uint64) * y.(uint64)
		case uintptr:
			return x.(uintptr) * y.(uintptr)
		case float32:
			return x.(float32) * y.(float32)
		case float64:
			return x.(float64) * y.(float64)
		case complex64:
			return x.(complex64) * y.(complex64)
		case complex128:
			return x.(complex128) * y.(complex128)
		}

	case token.QUO:
		switch x.(type) {
		case int:
			return x.(int) / y.(int)
		case int8:
			return x.(int8) / y.(int8)
		case int16:
			return x.(int16) / y.(int16)
		case int32:
			return x.(int32) / y.(int32)
		case int64:
			return x.(int64) / y.(int64)
		case uint:
			return x.(uint) / y.(uint)
		case uint8:
			return x.(uint8) / y.(uint8)
		case uint16:
			return x.(uint16) / y.(uint16)
		case uint32:
			return x.(uint32) / y.(uint32)
		case uint64:
			return x.(uint64) / y.(uint64)
		case uintptr:
			return x.(uintptr) / y.(uintptr)
		case float32:
			return x.(float32) / y.(float32)
		case float64:
			return x.(float64) / y.(float64)
		case complex64:
			return x.(complex64) / y.(complex64)
		case complex128:
			return x.(complex128) / y.(complex128)
		}

	case token.REM:
		switch x.(type) {
		case int:
			return x.(int) % y.(int)
		case int8:
			return x.(int8) % y.(int8)
		case int16:
			return x.(int16) % y.(int16)
		case int32:
			return x.(int32) % y.(int32)
		case int64:
			return x.(int64) % y.(int64)
		case uint:
			return x.(uint) % y.(uint)
		case uint8:
			return x.(uint8) % y.(uint8)
		case uint16:
			return x.(uint16) % y.(uint16)
		case uint32:
			return x.(uint32) % y.(uint32)
		case uint64:
			return x.(uint64) % y.(uint64)
		case uintptr:
			return x.(uintptr) % y.(uintptr)
		}

	case token.AND:
		switch x.(type) {
		case int:
			return x.(int) & y.(int)
		case int8:
			return x.(int8) & y.(int8)
		case int16:
			return x.(int16) & y.(int16)
		case int32:
			return x.(int32) & y.(int32)
		case int64:
			return x.(int64) & y.(int64)
		case uint:
			return x.(uint) & y.(uint)
		case uint8:
			return x.(uint8) & y.(uint8)
		case uint16:
			return x.(uint16) & y.(uint16)
		case uint32:
			return x.(uint32) & y.(uint32)
		case uint64:
			return x.(uint64) & y.(uint64)
		case uintptr:
			return x.(uintptr) & y.(uintptr)
		}

	case token.OR:
		switch x.(type) {
		case int:
			return x.(int) | y.(int)
		case int8:
			return x.(int8) | y.(int8)
		case int16:
			return x.(int16) | y.(int16)
		case int32:
			return x.(int32) | y.(int32)
		case int64:
			return x.(int64) | y.(int64)
		case uint:
			return x.(uint) | y.(uint)
		case uint8:
			return x.(uint8) | y.(uint8)
		case uint16:
			return x.(uint16) | y.(uint16)
		case uint32:
			return x.(uint32) | y.(uint32)
		case uint64:
			return x.(uint64) | y.(uint64)
		case uintptr:
			return x.(uintptr) | y.(uintptr)
		}

	case token.XOR:
		switch x.(type) {
		case int:
			return x.(int) ^ y.(int)
		case int8:
			return x.(int8) ^ y.(int8)
		case int16:
			return x.(int16) ^ y.(int16)
		case int32:
			return x.(int32) ^ y.(int32)
		case int64:
			return x.(int64) ^ y.(int64)
		case uint:
			return x.(uint) ^ y.(uint)
		case uint8:
			return x.(uint8) ^ y.(uint8)
		case uint16:
			return x.(uint16) ^ y.(uint16)
		case uint32:
			return x.(uint32) ^ y.(uint32)
		case uint64:
			return x.(uint64) ^ y.(uint64)
		case uintptr:
			return x.(uintptr) ^ y.(uintptr)
		}

	case token.AND_NOT:
		switch x.(type) {
		case int:
			return x.(int) &^ y.(int)
		case int8:
			return x.(int8) &^ y.(int8)
		case int16:
			return x.(int16) &^ y.(int16)
		case int32:
			return x.(int32) &^ y.(int32)
		case int64:
			return x.(int64) &^ y.(int64)
		case uint:
			return x.(uint) &^ y.(uint)
		case uint8:
			return x.(uint8) &^ y.(uint8)
		case uint16:
			return x.(uint16) &^ y.(uint16)
		case uint32:
			return x.(uint32) &^ y.(uint32)
		case uint64:
			return x.(uint64) &^ y.(uint64)
		case uintptr:
			return x.(uintptr) &^ y.(uintptr)
		}

	case token.SHL:
		u, ok := asUnsigned(y)
		if !ok {
			fr.i.throwRuntime("runtime error: negative shift amount")
		}
		y := asUint64(u)
		switch x.(type) {
		case int:
			return x.(int) << y
		case int8:
			return x.(int8) << y
		case int16:
			return x.(int16) << y
		case int32:
			return x.(int32) << y
		case int64:
			return x.(int64) << y
		case uint:
			return x.(uint) << y
		case uint8:
			return x.(uint8) << y
		case uint16:
			return x.(uint16) << y
		case uint32:
			return x.(uint32) << y
		case uint64:
			return x.(uint64) << y
		case uintptr:
			return x.(uintptr) << y
		}

	case token.SHR:
		u, ok := asUnsigned(y)
		if !ok {
			fr.i.throwRuntime("runtime error: negative shift amount")
		}
		y := asUint64(u)
		switch x.(type) {
		case int:
			return x.(int) >> y
		case int8:
			return x.(int8) >> y
		case int16:
			return x.(int16) >> y
		case int32:
			return x.(int32) >> y
		case int64:
			return x.(int64) >> y
		case uint:
			return x.(uint) >> y
		case uint8:
			return x.(uint8) >> y
		case uint16:
			return x.(uint16) >> y
		case uint32:
			return x.(uint32) >> y
		case uint64:
			return x.(uint64) >> y
		case uintptr:
			return x.(uintptr) >> y
		}

	case token.LSS:
		switch x.(type) {
		case int:
			return x.(int) < y.(int)
		case int8:
			return x.(int8) < y.(int8)
		case int16:
			return x.(int16) < y.(int16)
		case int32:
			return x.(int32) < y.(int32)
		case int64:
			return x.(int64) < y.(int64)
		case uint:
			return x.(uint) < y.(uint)
		case uint8:
			return x.(uint8) < y.(uint8)
		case uint16:
			return x.(uint16) < y.(uint16)
		case uint32:
			return x.(uint32) < y.(uint32)
		case uint64:
			return x.(uint64) < y.(uint64)
		case uintptr:
			return x.(uintptr) < y.(uintptr)
		case float32:
			return x.(float32) < y.(float32)
		case float64:
			return x.(float64) < y.(float64)
		case string:
			return x.(string) < y.(string)
		}

	case token.LEQ:
		switch x.(type) {
		case int:
			return x.(int) <= y.(int)
		case int8:
			return x.(int8) <= y.(int8)
		case int16:
			return x.(int16) <= y.(int16)
		case int32:
			return x.(int32) <= y.(int32)
		case int64:
			return x.(int64) <= y.(int64)
		case uint:
			return x.(uint) <= y.(uint)
		case uint8:
			return x.(uint8) <= y.(uint8)
		case uint16:
			return x.(uint16) <= y.(uint16)
		case uint32:
			return x.(uint32) <= y.(uint32)
		case uint64:
			return x.(uint64) <= y.(uint64)
		case uintptr:
			return x.(uintptr) <= y.(uintptr)
		case float32:
			return x.(float32) <= y.(float32)
		case float64:
			return x.(float64) <= y.(float64)
		case string:
			return x.(string) <= y.(string)
		}

	case token.EQL:
		return fromTerm(eqnil(t, x, y), types.Bool)

	case token.NEQ:
		return fromTerm(mkNot(eqnil(t, x, y)), types.Bool)

	case token.GTR:
		switch x.(type) {
		case int:
			return x.(int) > y.(int)
		case int8:
			return x.(int8) > y.(int8)
		case int16:
			return x.(int16) > y.(int16)
		case int32:
			return x.(int32) > y.(int32)
		case int64:
			return x.(int64) > y.(int64)
		case uint:
			return x.(uint) > y.(uint)
		case uint8:
			return x.(uint8) > y.(uint8)
		case uint16:
			return x.(uint16) > y.(uint16)
		case uint32:
			return x.(uint32) > y.(uint32)
		case uint64:
			return x.(uint64) > y.(uint64)
		case uintptr:
			return x.(uintptr) > y.(uintptr)
		case float32:
			return x.(float32) > y.(float32)
		case float64:
			return x.(float64) > y.(float64)
		case string:
			return x.(string) > y.(string)
		}

	case token.GEQ:
		switch x.(type) {
		case int:
			return x.(int) >= y.(int)
		case int8:
			return x.(int8) >= y.(int8)
		case int16:
			return x.(int16) >= y.(int16)
		case int32:
			return x.(int32) >= y.(int32)
		case int64:
			return x.(int64) >= y.(int64)
		case uint:
			return x.(uint) >= y.(uint)
		case uint8:
			return x.(uint8) >= y.(uint8)
		case uint16:
			return x.(uint16) >= y.(uint16)
		case uint32:
			return x.(uint32) >= y.(uint32)
		case uint64:
			return x.(uint64) >= y.(uint64)
		case uintptr:
			return x.(uintptr) >= y.(uintptr)
		case float32:
			return x.(float32) >= y.(float32)
		case float64:
			return x.(float64) >= y.(float64)
		case string:
			return x.(string) >= y.(string)
		}
	}
	panic(fmt.Sprintf("invalid binary op: %T %s %T", x, op, y))
}

// eqnil returns the comparison x == y, as a term, using the equivalence
// relation appropriate for type t.
// If t is a reference type, at most one of x or y may be a nil value
// of that type.
func eqnil(t types.Type, x, y value) *term {
	switch t.Underlying().(type) {
	case *types.Map, *types.Signature, *types.Slice:
		// Since these types don't support comparison,
		// one of the operands must be a literal nil.
		switch x := x.(type) {
		case *omap:
			return mkBool((x != nil) == (y.(*omap) != nil))
		case *ssa.Function:
			switch y := y.(type) {
			case *ssa.Function:
				return mkBool((x != nil) == (y != nil))
			case *closure:
				return mkBool(x != nil)
			}
		case *closure:
			switch y := y.(type) {
			case *ssa.Function:
				return mkBool(y != nil)
			case *closure:
				return mkBool(x == y)
			}
		case []value:
			return mkBool((x != nil) == (y.([]value) != nil))
		}
		panic(fmt.Sprintf("eqnil(%s): illegal dynamic type: %T", t, x))
	}

	return equalsTerm(t, x, y)
}

func unop(fr *frame, instr *ssa.UnOp, x value) value {
	if sx, ok := x.(sym); ok {
		return symUnop(instr.Op, sx)
	}
	switch instr.Op {
	case token.ARROW: // receive
		panic(unsupported("channel receive"))
	case token.SUB:
		switch x := x.(type) {
		case int:
			return -x
		case int8:
			return -x
		case int16:
			return -x
		case int32:
			return -x
		case int64:
			return -x
		case uint:
			return -x
		case uint8:
			return -x
		case uint16:
			return -x
		case uint32:
			return -x
		case uint64:
			return -x
		case uintptr:
			return -x
		case float32:
			return -x
		case float64:
			return -x
		case complex64:
			return -x
		case complex128:
			return -x
		}
	case token.MUL:
		if sp, ok := x.(symElemPtr); ok {
			return sp.load()
		}
		p := x.(*value)
		if p == nil {
			fr.i.throwNilDeref()
		}
		return load(typeparams.MustDeref(instr.X.Type()), p)
	case token.NOT:
		return !x.(bool)
	case token.XOR:
		switch x := x.(type) {
		case int:
			return ^x
		case int8:
			return ^x
		case int16:
			return ^x
		case int32:
			return ^x
		case int64:
			return ^x
		case uint:
			return ^x
		case uint8:
			return ^x
		case uint16:
			return ^x
		case uint32:
			return ^x
		case uint64:
			return ^x
		case uintptr:
			return ^x
		}
	}
	panic(fmt.Sprintf("invalid unary op %s %T", instr.Op, x))
}

// typeAssert checks whether dynamic type of itf is instr.AssertedType.
// It returns the extracted value on success, and panics on failure,
// unless instr.CommaOk, in which case it always returns a "value,ok" tuple.
func typeAssert(i *interpreter, instr *ssa.TypeAssert, itf iface) value {
	var v value
	err := ""
	if itf.t == nil {
		err = fmt.Sprintf("interface conversion: interface is nil, not %s", instr.AssertedType)

	} else if idst, ok := instr.AssertedType.Underlying().(*types.Interface); ok {
		v = itf
		err = checkInterface(i, idst, itf)

	} else if types.Identical(itf.t, instr.AssertedType) {
		v = itf.v // extract value

	} else {
		err = fmt.Sprintf("interface conversion: interface is %s, not %s", itf.t, instr.AssertedType)
	}
	// Note: if instr.Underlying==true ever becomes reachable from interp check that
	// types.Identical(itf.t.Underlying(), instr.AssertedType)

	if err != "" {
		if !instr.CommaOk {
			i.throwRuntime(err)
		}
		return tuple{zero(instr.AssertedType), false}
	}
	if instr.CommaOk {
		return tuple{v, true}
	}
	return v
}

// This variable is no longer used but remains to prevent build breakage.
var CapturedOutput *bytes.Buffer

// callBuiltin interprets a call to builtin fn with arguments args,
// returning its result.
func callBuiltin(caller *frame, callpos token.Pos, fn *ssa.Builtin, args []value) value {
	switch fn.Name() {
	case "append":
		if len(args) == 1 {
			return args[0]
		}
		caller.i.noteAppend(args[0].([]value))
		if isStr(args[1]) {
			// append([]byte, ...string) []byte
			arg0 := args[0].([]value)
			arg0 = append(arg0, strBytes(args[1])...)
			return arg0
		}
		// append([]T, ...[]T) []T
		return append(args[0].([]value), args[1].([]value)...)

	case "copy": // copy([]T, []T) int or copy([]byte, string) int
		src := args[1]
		if isStr(src) {
			src = strBytes(src)
		}
		return copy(args[0].([]value), src.([]value))

	case "close": // close(chan T)
		panic(unsupported("close(chan)"))

	case "delete": // delete(map[K]value, K)
		if m := args[0].(*omap); m != nil {
			caller.i.noteMapWrite(m)
		}
		args[0].(*omap).delete(caller.i, args[1])
		return nil

	case "print", "println": // print(any, ...)
		ln := fn.Name() == "println"
		var buf bytes.Buffer
		for i, arg := range args {
			if i > 0 && ln {
				buf.WriteRune(' ')
			}
			buf.WriteString(toString(arg))
		}
		if ln {
			buf.WriteRune('\n')
		}
		os.Stderr.Write(buf.Bytes())
		return nil

	case "len":
		switch x := args[0].(type) {
		case string:
			return len(x)
		case array:
			return len(x)
		case *value:
			return len((*x).(array))
		case symstr:
			return len(x.b)
		case []value:
			return len(x)
		case *omap:
			return x.len()
		default:
			panic(fmt.Sprintf("len: illegal operand: %T", x))
		}

	case "cap":
		switch x := args[0].(type) {
		case array:
			return cap(x)
		case *value:
			return cap((*x).(array))
		case []value:
			return cap(x)
		default:
			panic(fmt.Sprintf("cap: illegal operand: %T", x))
		}

	case "min":
		return foldLeft(func(a, b value) value { return minV(caller, a, b) }, args)
	case "max":
		return foldLeft(func(a, b value) value { return maxV(caller, a, b) }, args)

	case "real":
		switch c := args[0].(type) {
		case complex64:
			return real(c)
		case complex128:
			return real(c)
		default:
			panic(fmt.Sprintf("real: illegal operand: %T", c))
		}

	case "imag":
		switch c := args[0].(type) {
		case complex64:
			return imag(c)
		case complex128:
			return imag(c)
		default:
			panic(fmt.Sprintf("imag: illegal operand: %T", c))
		}

	case "complex":
		switch f := args[0].(type) {
		case float32:
			return complex(f, args[1].(float32))
		case float64:
			return complex(f, args[1].(float64))
		default:
			panic(fmt.Sprintf("complex: illegal operand: %T", f))
		}

	case "panic":
		// ssa.Panic handles most cases; this is only for "go
		// panic" or "defer panic".
		caller.i.panicWhere = caller.i.whereAmI()
		panic(targetPanic{args[0]})

	case "recover":
		return doRecover(caller)

	case "ssa:wrapnilchk":
		recv := args[0]
		if recv.(*value) == nil {
			caller.i.throwNilDeref()
		}
		return recv

	case "ssa:deferstack":
		return &caller.defers
	}

	panic("unknown built-in: " + fn.Name())
}

func rangeIter(fr *frame, x value, t types.Type) iter {
	switch x := x.(type) {
	case *omap:
		return x.iter()
	case string:
		return &stringIter{Reader: strings.NewReader(x)}
	case symstr:
		return &symStringIter{i: fr.i, b: x.b}
	}
	panic(fmt.Sprintf("cannot range over %T", x))
}

// widen widens a basic typed value x to the widest type of its
// category, one of:
//
//	bool, int64, uint64, float64, complex128, string.
//
// This is inefficient but reduces the size of the cross-product of
// cases we have to consider.
func widen(x value) value {
	switch y := x.(type) {
	case bool, int64, uint64, float64, complex128, string, unsafe.Pointer:
		return x
	case int:
		return int64(y)
	case int8:
		return int64(y)
	case int16:
		return int64(y)
	case int32:
		return int64(y)
	case uint:
		return uint64(y)
	case uint8:
		return uint64(y)
	case uint16:
		return uint64(y)
	case uint32:
		return uint64(y)
	case uintptr:
		return uint64(y)
	case float32:
		return float64(y)
	case complex64:
		return complex128(y)
	}
	panic(fmt.Sprintf("cannot widen %T", x))
}

// conv converts the value x of type t_src to type t_dst and returns
// the result.
// Possible cases are described with the ssa.Convert operator.
func conv(fr *frame, t_dst, t_src types.Type, x value) value {
	ut_src := t_src.Underlying()
	ut_dst := t_dst.Underlying()

	// Symbolic operands.
	switch xv := x.(type) {
	case sym:
		kd, ok := basicKindOfType(t_dst)
		if !ok {
			panic(unsupported(fmt.Sprintf("conversion of symbolic %s to %s", t_src, t_dst)))
		}
		switch {
		case kd == types.String:
			var t64 *term
			if kindSigned(xv.k) {
				t64 = mkSext(xv.t, 64)
			} else {
				t64 = mkZext(xv.t, 64)
			}
			if fr.i.decide(mkPred(opULt, t64, mkConst(0x110000, 64))) {
				return mkStr(encodeRuneSym(fr.i, fromTerm(mkExtract(t64, 0, 32), types.Int32)))
			}
			return "\uFFFD"
		case kd == types.Float32 || kd == types.Float64 || kd == types.Complex64 || kd == types.Complex128:
			panic(unsupported("symbolic integer to float conversion"))
		case kd == types.UnsafePointer:
			panic(unsupported("symbolic unsafe.Pointer"))
		default:
			return symConvInt(xv, kd)
		}
	case symstr:
		switch ut_dst := ut_dst.(type) {
		case *types.Slice:
			switch ut_dst.Elem().Underlying().(*types.Basic).Kind() {
			case types.Byte:
				return append([]value(nil), xv.b...)
			case types.Rune:
				var res []value
				for pos := 0; pos < len(xv.b); {
					r, n := decodeRuneSym(fr.i, xv.b[pos:])
					res = append(res, r)
					pos += n
				}
				return res
			}
		case *types.Basic:
			if ut_dst.Kind() == types.String {
				return xv
			}
		}
		panic(unsupported(fmt.Sprintf("conversion of symbolic string to %s", t_dst)))
	case []value:
		if sl, ok := ut_src.(*types.Slice); ok {
			anySym := false
			for _, e := range xv {
				if isSym(e) {
					anySym = true
					break
				}
			}
			if anySym {
				switch sl.Elem().Underlying().(*types.Basic).Kind() {
				case types.Byte:
					return mkStr(append([]value(nil), xv...))
				case types.Rune:
					var out []value
					for _, r := range xv {
						out = append(out, encodeRuneSym(fr.i, r)...)
					}
					return mkStr(out)
				}
			}
		}
	}

	// Destination type is not an "untyped" type.
	if b, ok := ut_dst.(*types.Basic); ok && b.Info()&types.IsUntyped != 0 {
		panic("oops: conversion to 'untyped' type: " + b.String())
	}

	// Nor is it an interface type.
	if _, ok := ut_dst.(*types.Interface); ok {
		if _, ok := ut_src.(*types.Interface); ok {
			panic("oops: Convert should be ChangeInterface")
		} else {
			panic("oops: Convert should be MakeInterface")
		}
	}

	// Remaining conversions:
	//    + untyped string/number/bool constant to a specific
	//      representation.
	//    + conversions between non-complex numeric types.
	//    + conversions between complex numeric types.
	//    + integer/[]byte/[]rune -> string.
	//    + string -> []byte/[]rune.
	//
	// All are treated the same: first we extract the value to the
	// widest representation (int64, uint64, float64, complex128,
	// or string), then we convert it to the desired type.

	switch ut_src := ut_src.(type) {
	case *types.Pointer:
		switch ut_dst := ut_dst.(type) {
		case *types.Basic:
			// *value to unsafe.Pointer?
			if ut_dst.Kind() == types.UnsafePointer {
				return unsafe.Pointer(x.(*value))
			}
		}

	case *types.Slice:
		// []byte or []rune -> string
		switch ut_src.Elem().Underlying().(*types.Basic).Kind() {
		case types.Byte:
			x := x.([]value)
			b := make([]byte, 0, len(x))
			for i := range x {
				b = append(b, x[i].(byte))
			}
			return string(b)

		case types.Rune:
			x := x.([]value)
			r := make([]rune, 0, len(x))
			for i := range x {
				r = append(r, x[i].(rune))
			}
			return string(r)
		}

	case *types.Basic:
		x = widen(x)

		// integer -> string?
		if ut_src.Info()&types.IsInteger != 0 {
			if ut_dst, ok := ut_dst.(*types.Basic); ok && ut_dst.Kind() == types.String {
				return fmt.Sprintf("%c", x)
			}
		}

		// string -> []rune, []byte or string?
		if s, ok := x.(string); ok {
			switch ut_dst := ut_dst.(type) {
			case *types.Slice:
				var res []value
				switch ut_dst.Elem().Underlying().(*types.Basic).Kind() {
				case types.Rune:
					for _, r := range []rune(s) {
						res = append(res, r)
					}
					return res
				case types.Byte:
					for _, b := range []byte(s) {
						res = append(res, b)
					}
					return res
				}
			case *types.Basic:
				if ut_dst.Kind() == types.String {
					return x.(string)
				}
			}
			break // fail: no other conversions for string
		}

		// unsafe.Pointer -> *value
		if ut_src.Kind() == types.UnsafePointer {
			// TODO(adonovan): this is wrong and cannot
			// really be fixed with the current design.
			//
			// return (*value)(x.(unsafe.Pointer))
			// creates a new pointer of a different
			// type but the underlying interface value
			// knows its "true" type and so cannot be
			// meaningfully used through the new pointer.
			//
			// To make this work, the interpreter needs to
			// simulate the memory layout of a real
			// compiled implementation.
			//
			// To at least preserve type-safety, we'll
			// just return the zero value of the
			// destination type.
			return zero(t_dst)
		}

		// Conversions between complex numeric types?
		if ut_src.Info()&types.IsComplex != 0 {
			switch ut_dst.(*types.Basic).Kind() {
			case types.Complex64:
				return complex64(x.(complex128))
			case types.Complex128:
				return x.(complex128)
			}
			break // fail: no other conversions for complex
		}

		// Conversions between non-complex numeric types?
		if ut_src.Info()&types.IsNumeric != 0 {
			kind := ut_dst.(*types.Basic).Kind()
			switch x := x.(type) {
			case int64: // signed integer -> numeric?
				switch kind {
				case types.Int:
					return int(x)
				case types.Int8:
					return int8(x)
				case types.Int16:
					return int16(x)
				case types.Int32:
					return int32(x)
				case types.Int64:
					return int64(x)
				case types.Uint:
					return uint(x)
				case types.Uint8:
					return uint8(x)
				case types.Uint16:
					return uint16(x)
				case types.Uint32:
					return uint32(x)
				case types.Uint64:
					return uint64(x)
				case types.Uintptr:
					return uintptr(x)
				case types.Float32:
					return float32(x)
				case types.Float64:
					return float64(x)
				}

			case uint64: // unsigned integer -> numeric?
				switch kind {
				case types.Int:
					return int(x)
				case types.Int8:
					return int8(x)
				case types.Int16:
					return int16(x)
				case types.Int32:
					return int32(x)
				case types.Int64:
					return int64(x)
				case types.Uint:
					return uint(x)
				case types.Uint8:
					return uint8(x)
				case types.Uint16:
					return uint16(x)
				case types.Uint32:
					return uint32(x)
				case types.Uint64:
					return uint64(x)
				case types.Uintptr:
					return uintptr(x)
				case types.Float32:
					return float32(x)
				case types.Float64:
					return float64(x)
				}

			case float64: // floating point -> numeric?
				switch kind {
				case types.Int:
					return int(x)
				case types.Int8:
					return int8(x)
				case types.Int16:
					return int16(x)
				case types.Int32:
					return int32(x)
				case types.Int64:
					return int64(x)
				case types.Uint:
					return uint(x)
				case types.Uint8:
					return uint8(x)
				case types.Uint16:
					return uint16(x)
				case types.Uint32:
					return uint32(x)
				case types.Uint64:
					return uint64(x)
				case types.Uintptr:
					return uintptr(x)
				case types.Float32:
					return float32(x)
				case types.Float64:
					return float64(x)
				}
			}
		}
	}

	panic(fmt.Sprintf("unsupported conversion: %s  -> %s, dynamic type %T", t_src, t_dst, x))
}

// sliceToArrayPointer converts the value x of type slice to type t_dst
// a pointer to array and returns the result.
func sliceToArrayPointer(t_dst, t_src types.Type, x value) value {
	if _, ok := t_src.Underlying().(*types.Slice); ok {
		if ptr, ok := t_dst.Underlying().(*types.Pointer); ok {
			if arr, ok := ptr.Elem().Underlying().(*types.Array); ok {
				x := x.([]value)
				if arr.Len() > int64(len(x)) {
					panic("array length is greater than slice length")
				}
				if x == nil {
					return zero(t_dst)
				}
				v := value(array(x[:arr.Len()]))
				return &v
			}
		}
	}

	panic(fmt.Sprintf("unsupported conversion: %s  -> %s, dynamic type %T", t_src, t_dst, x))
}

// checkInterface checks that the method set of x implements the
// interface itype.
// On success it returns "", on failure, an error message.
func checkInterface(i *interpreter, itype *types.Interface, x iface) string {
	switch x.t {
	case rtypeType:
		// the fake reflect.Type implementation: satisfies reflect.Type and
		// any interface made of methods we model (or none)
		for j := 0; j < itype.NumMethods(); j++ {
			name := itype.Method(j).Name()
			if _, ok := i.rtypeMethods[name]; !ok && !rtypeUnmodelled[name] {
				return fmt.Sprintf("interface conversion: reflect.rtype is not %v: missing method %s", itype, name)
			}
		}
		return ""
	case errorType:
		if itype.NumMethods() == 0 || (itype.NumMethods() == 1 && itype.Method(0).Name() == "Error") {
			return ""
		}
	}
	if meth, _ := types.MissingMethod(x.t, itype, true); meth != nil {
		return fmt.Sprintf("interface conversion: %v is not %v: missing method %s",
			x.t, itype, meth.Name())
	}
	return "" // ok
}

func foldLeft(op func(value, value) value, args []value) value {
	x := args[0]
	for _, arg := range args[1:] {
		x = op(x, arg)
	}
	return x
}

func minV(fr *frame, x, y value) value {
	switch x := x.(type) {
	case float32:
		return fmin(x, y.(float32))
	case float64:
		return fmin(x, y.(float64))
	}
	c := binop(fr, token.LSS, nil, y, x)
	switch c := c.(type) {
	case bool:
		if c {
			return y
		}
		return x
	case sym:
		if isStr(x) {
			if fr.i.decide(c.t) {
				return y
			}
			return x
		}
		return fromTerm(mkIte(c.t, termOf(y), termOf(x)), scalarKind(x))
	}
	panic("minV")
}

func maxV(fr *frame, x, y value) value {
	switch x := x.(type) {
	case float32:
		return fmax(x, y.(float32))
	case float64:
		return fmax(x, y.(float64))
	}
	c := binop(fr, token.GTR, nil, y, x)
	switch c := c.(type) {
	case bool:
		if c {
			return y
		}
		return x
	case sym:
		if isStr(x) {
			if fr.i.decide(c.t) {
				return y
			}
			return x
		}
		return fromTerm(mkIte(c.t, termOf(y), termOf(x)), scalarKind(x))
	}
	panic("maxV")
}

// copied from $GOROOT/src/runtime/minmax.go

type floaty interface{ ~float32 | ~float64 }

func fmin[F floaty](x, y F) F {
	if y != y || y < x {
		return y
	}
	if x != x || x < y || x != 0 {
		return x
	}
	// x and y are both ±0
	// if either is -0, return -0; else return +0
	return forbits(x, y)
}

func fmax[F floaty](x, y F) F {
	if y != y || y > x {
		return y
	}
	if x != x || x > y || x != 0 {
		return x
	}
	// x and y are both ±0
	// if both are -0, return -0; else return +0
	return fandbits(x, y)
}

func forbits[F floaty](x, y F) F {
	switch unsafe.Sizeof(x) {
	case 4:
		*(*uint32)(unsafe.Pointer(&x)) |= *(*uint32)(unsafe.Pointer(&y))
	case 8:
		*(*uint64)(unsafe.Pointer(&x)) |= *(*uint64)(unsafe.Pointer(&y))
	}
	return x
}

func fandbits[F floaty](x, y F) F {
	switch unsafe.Sizeof(x) {
	case 4:
		*(*uint32)(unsafe.Pointer(&x)) &= *(*uint32)(unsafe.Pointer(&y))
	case 8:
		*(*uint64)(unsafe.Pointer(&x)) &= *(*uint64)(unsafe.Pointer(&y))
	}
	return x
}
