package interp

// Symbolic scalars and strings as interpreter values.
//
//   sym     a bool or integer whose value is an SMT term (never constant:
//           constants are kept as ordinary Go values)
//   symstr  a string of concrete length whose bytes are uint8 or sym

import (
	"fmt"
	"go/token"
	"go/types"
	"unicode/utf8"
)

type sym struct {
	t *term
	k types.BasicKind
}

type symstr struct {
	b []value // uint8 or sym{k: Uint8}
}

func kindWidth(k types.BasicKind) uint8 {
	switch k {
	case types.Bool, types.UntypedBool:
		return 0
	case types.Int8, types.Uint8:
		return 8
	case types.Int16, types.Uint16:
		return 16
	case types.Int32, types.Uint32, types.UntypedRune:
		return 32
	case types.Int, types.Int64, types.Uint, types.Uint64, types.Uintptr, types.UntypedInt:
		return 64
	}
	panic(fmt.Sprintf("kindWidth: unsupported kind %v", k))
}

func kindSigned(k types.BasicKind) bool {
	switch k {
	case types.Int, types.Int8, types.Int16, types.Int32, types.Int64, types.UntypedInt, types.UntypedRune:
		return true
	}
	return false
}

// kindOf returns the basic kind of a concrete scalar value.
func kindOf(v value) (types.BasicKind, bool) {
	switch v.(type) {
	case bool:
		return types.Bool, true
	case int:
		return types.Int, true
	case int8:
		return types.Int8, true
	case int16:
		return types.Int16, true
	case int32:
		return types.Int32, true
	case int64:
		return types.Int64, true
	case uint:
		return types.Uint, true
	case uint8:
		return types.Uint8, true
	case uint16:
		return types.Uint16, true
	case uint32:
		return types.Uint32, true
	case uint64:
		return types.Uint64, true
	case uintptr:
		return types.Uintptr, true
	}
	return 0, false
}

// termOf converts a scalar value (concrete or sym) to a term.
func termOf(v value) *term {
	switch v := v.(type) {
	case sym:
		return v.t
	case bool:
		return mkBool(v)
	}
	k, ok := kindOf(v)
	if !ok {
		panic(unsupported(fmt.Sprintf("termOf(%T)", v)))
	}
	return mkConst(uint64(asInt64(v)), kindWidth(k))
}

func scalarKind(v value) types.BasicKind {
	if s, ok := v.(sym); ok {
		return s.k
	}
	k, ok := kindOf(v)
	if !ok {
		panic(unsupported(fmt.Sprintf("scalarKind(%T)", v)))
	}
	return k
}

// fromTerm converts a term back to a value of kind k: concrete if constant.
func fromTerm(t *term, k types.BasicKind) value {
	if !t.isConst() {
		return sym{t, k}
	}
	return concreteOfKind(t.k, k)
}

func concreteOfKind(v uint64, k types.BasicKind) value {
	switch k {
	case types.Bool, types.UntypedBool:
		return v != 0
	case types.Int, types.UntypedInt:
		return int(v)
	case types.Int8:
		return int8(v)
	case types.Int16:
		return int16(v)
	case types.Int32, types.UntypedRune:
		return int32(v)
	case types.Int64:
		return int64(v)
	case types.Uint:
		return uint(v)
	case types.Uint8:
		return uint8(v)
	case types.Uint16:
		return uint16(v)
	case types.Uint32:
		return uint32(v)
	case types.Uint64:
		return v
	case types.Uintptr:
		return uintptr(v)
	}
	panic(fmt.Sprintf("concreteOfKind: kind %v", k))
}

func isSym(v value) bool {
	_, ok := v.(sym)
	return ok
}

func basicKindOfType(t types.Type) (types.BasicKind, bool) {
	b, ok := t.Underlying().(*types.Basic)
	if !ok {
		return 0, false
	}
	return b.Kind(), true
}

// symBinop implements binop when at least one operand is sym.
func symBinop(fr *frame, op token.Token, x, y value) value {
	switch op {
	case token.SHL, token.SHR:
		return symShift(fr, op, x, y)
	}
	k := scalarKind(x)
	if _, ok := x.(sym); !ok {
		k = scalarKind(y)
	}
	tx, ty := termOf(x), termOf(y)
	signed := kindSigned(k)
	if k == types.Bool {
		switch op {
		case token.EQL:
			return fromTerm(mkPred(opEq, tx, ty), types.Bool)
		case token.NEQ:
			return fromTerm(mkNot(mkPred(opEq, tx, ty)), types.Bool)
		}
		panic(unsupported("bool binop " + op.String()))
	}
	switch op {
	case token.ADD:
		return fromTerm(mkBin(opAdd, tx, ty), k)
	case token.SUB:
		return fromTerm(mkBin(opSub, tx, ty), k)
	case token.MUL:
		return fromTerm(mkBin(opMul, tx, ty), k)
	case token.QUO, token.REM:
		if fr.i.decide(mkPred(opEq, ty, mkConst(0, ty.w))) {
			fr.i.throwRuntime("runtime error: integer divide by zero")
		}
		var o opcode
		switch {
		case op == token.QUO && signed:
			o = opSDiv
		case op == token.QUO:
			o = opUDiv
		case signed:
			o = opSRem
		default:
			o = opURem
		}
		return fromTerm(mkBin(o, tx, ty), k)
	case token.AND:
		return fromTerm(mkBin(opAnd, tx, ty), k)
	case token.OR:
		return fromTerm(mkBin(opOr, tx, ty), k)
	case token.XOR:
		return fromTerm(mkBin(opXor, tx, ty), k)
	case token.AND_NOT:
		return fromTerm(mkBin(opAnd, tx, mkBNot(ty)), k)
	case token.EQL:
		return fromTerm(mkPred(opEq, tx, ty), types.Bool)
	case token.NEQ:
		return fromTerm(mkNot(mkPred(opEq, tx, ty)), types.Bool)
	case token.LSS:
		return fromTerm(mkPred(pick(signed, opSLt, opULt), tx, ty), types.Bool)
	case token.LEQ:
		return fromTerm(mkPred(pick(signed, opSLe, opULe), tx, ty), types.Bool)
	case token.GTR:
		return fromTerm(mkPred(pick(signed, opSLt, opULt), ty, tx), types.Bool)
	case token.GEQ:
		return fromTerm(mkPred(pick(signed, opSLe, opULe), ty, tx), types.Bool)
	}
	panic(unsupported("sym binop " + op.String()))
}

func pick(c bool, a, b opcode) opcode {
	if c {
		return a
	}
	return b
}

func symShift(fr *frame, op token.Token, x, y value) value {
	kx := scalarKind(x)
	ky := scalarKind(y)
	tx, ty := termOf(x), termOf(y)
	if kindSigned(ky) {
		if fr.i.decide(mkPred(opSLt, ty, mkConst(0, ty.w))) {
			fr.i.throwRuntime("runtime error: negative shift amount")
		}
	}
	// Bring the count to x's width, saturating.
	switch {
	case ty.w < tx.w:
		ty = mkZext(ty, tx.w)
	case ty.w > tx.w:
		hi := mkExtract(ty, tx.w, ty.w-tx.w)
		lo := mkExtract(ty, 0, tx.w)
		ty = mkIte(mkPred(opEq, hi, mkConst(0, hi.w)), lo, mkConst(mask(tx.w), tx.w))
	}
	var o opcode
	switch {
	case op == token.SHL:
		o = opShl
	case kindSigned(kx):
		o = opAShr
	default:
		o = opLShr
	}
	return fromTerm(mkBin(o, tx, ty), kx)
}

func symUnop(op token.Token, x sym) value {
	switch op {
	case token.SUB:
		return fromTerm(mkNeg(x.t), x.k)
	case token.XOR:
		return fromTerm(mkBNot(x.t), x.k)
	case token.NOT:
		return fromTerm(mkNot(x.t), types.Bool)
	}
	panic(unsupported("sym unop " + op.String()))
}

// symConvInt converts integer sym x to integer kind dst.
func symConvInt(x sym, dst types.BasicKind) value {
	w := kindWidth(dst)
	if kindSigned(x.k) {
		return fromTerm(mkSext(x.t, w), dst)
	}
	return fromTerm(mkZext(x.t, w), dst)
}

// ---------------------------------------------------------------------
// Symbolic strings

// mkStr normalises a byte list to string (all concrete) or symstr.
func mkStr(b []value) value {
	allc := true
	for _, x := range b {
		if _, ok := x.(uint8); !ok {
			allc = false
			break
		}
	}
	if allc {
		bs := make([]byte, len(b))
		for i, x := range b {
			bs[i] = x.(uint8)
		}
		return string(bs)
	}
	return symstr{b}
}

// strBytes returns the byte values of a string-like value.
func strBytes(v value) []value {
	switch v := v.(type) {
	case string:
		out := make([]value, len(v))
		for i := 0; i < len(v); i++ {
			out[i] = v[i]
		}
		return out
	case symstr:
		return v.b
	}
	panic(fmt.Sprintf("strBytes(%T)", v))
}

func isStr(v value) bool {
	switch v.(type) {
	case string, symstr:
		return true
	}
	return false
}

func strLen(v value) int {
	switch v := v.(type) {
	case string:
		return len(v)
	case symstr:
		return len(v.b)
	}
	panic(fmt.Sprintf("strLen(%T)", v))
}

// strEqTerm is the condition x == y.
func strEqTerm(x, y value) *term {
	if strLen(x) != strLen(y) {
		return termFalse
	}
	bx, by := strBytes(x), strBytes(y)
	r := termTrue
	for i := range bx {
		r = mkAnd(r, mkPred(opEq, termOf(bx[i]), termOf(by[i])))
		if r.isFalse() {
			return r
		}
	}
	return r
}

// strLtTerm is the condition x < y (bytewise lexicographic).
func strLtTerm(x, y value) *term {
	bx, by := strBytes(x), strBytes(y)
	n := len(bx)
	if len(by) < n {
		n = len(by)
	}
	// Build from the end: lt_i = x_i < y_i || (x_i == y_i && lt_{i+1})
	r := mkBool(len(bx) < len(by))
	for i := n - 1; i >= 0; i-- {
		tx, ty := termOf(bx[i]), termOf(by[i])
		r = mkOr(mkPred(opULt, tx, ty), mkAnd(mkPred(opEq, tx, ty), r))
	}
	return r
}

func symStrBinop(op token.Token, x, y value) value {
	switch op {
	case token.ADD:
		bx, by := strBytes(x), strBytes(y)
		out := make([]value, 0, len(bx)+len(by))
		out = append(out, bx...)
		out = append(out, by...)
		return mkStr(out)
	case token.EQL:
		return fromTerm(strEqTerm(x, y), types.Bool)
	case token.NEQ:
		return fromTerm(mkNot(strEqTerm(x, y)), types.Bool)
	case token.LSS:
		return fromTerm(strLtTerm(x, y), types.Bool)
	case token.GTR:
		return fromTerm(strLtTerm(y, x), types.Bool)
	case token.LEQ:
		return fromTerm(mkNot(strLtTerm(y, x)), types.Bool)
	case token.GEQ:
		return fromTerm(mkNot(strLtTerm(x, y)), types.Bool)
	}
	panic(unsupported("symstr binop " + op.String()))
}

// decodeRuneSym decodes the first UTF-8 sequence of b (non-empty) exactly as
// utf8.DecodeRune does, forking on the byte classes where bytes are
// symbolic.  It returns the rune value (int32 or sym) and the width.
func decodeRuneSym(i *interpreter, b []value) (value, int) {
	allc := true
	n := len(b)
	if n > 4 {
		n = 4
	}
	for _, x := range b[:n] {
		if isSym(x) {
			allc = false
		}
	}
	if allc {
		bs := make([]byte, n)
		for j := range bs {
			bs[j] = b[j].(uint8)
		}
		r, sz := utf8.DecodeRune(bs)
		return r, sz
	}
	b0 := termOf(b[0])
	c8 := func(v uint64) *term { return mkConst(v, 8) }
	inRange := func(t *term, lo, hi uint64) *term {
		return mkAnd(mkPred(opULe, c8(lo), t), mkPred(opULe, t, c8(hi)))
	}
	z32 := func(t *term) *term { return mkZext(t, 32) }
	bad := func() (value, int) { return int32(utf8.RuneError), 1 }
	if i.decide(mkPred(opULt, b0, c8(0x80))) {
		return fromTerm(z32(b0), types.Int32), 1
	}
	// Lead byte classes per unicode/utf8's acceptRanges.
	if i.decide(inRange(b0, 0xC2, 0xDF)) {
		if len(b) < 2 {
			return bad()
		}
		b1 := termOf(b[1])
		if !i.decide(inRange(b1, 0x80, 0xBF)) {
			return bad()
		}
		r := mkBin(opOr, mkBin(opShl, z32(mkBin(opAnd, b0, c8(0x1F))), mkConst(6, 32)), z32(mkBin(opAnd, b1, c8(0x3F))))
		return fromTerm(r, types.Int32), 2
	}
	if i.decide(inRange(b0, 0xE0, 0xEF)) {
		if len(b) < 3 {
			// need second byte check only if present: DecodeRune returns (RuneError,1) for short input
			return bad()
		}
		b1, b2 := termOf(b[1]), termOf(b[2])
		// second-byte range depends on b0: E0 → A0..BF, ED → 80..9F, else 80..BF
		lo := mkIte(mkPred(opEq, b0, c8(0xE0)), c8(0xA0), c8(0x80))
		hi := mkIte(mkPred(opEq, b0, c8(0xED)), c8(0x9F), c8(0xBF))
		ok1 := mkAnd(mkPred(opULe, lo, b1), mkPred(opULe, b1, hi))
		if !i.decide(ok1) {
			return bad()
		}
		if !i.decide(inRange(b2, 0x80, 0xBF)) {
			return bad()
		}
		r := mkBin(opOr, mkBin(opOr,
			mkBin(opShl, z32(mkBin(opAnd, b0, c8(0x0F))), mkConst(12, 32)),
			mkBin(opShl, z32(mkBin(opAnd, b1, c8(0x3F))), mkConst(6, 32))),
			z32(mkBin(opAnd, b2, c8(0x3F))))
		return fromTerm(r, types.Int32), 3
	}
	if i.decide(inRange(b0, 0xF0, 0xF4)) {
		if len(b) < 4 {
			return bad()
		}
		b1, b2, b3 := termOf(b[1]), termOf(b[2]), termOf(b[3])
		lo := mkIte(mkPred(opEq, b0, c8(0xF0)), c8(0x90), c8(0x80))
		hi := mkIte(mkPred(opEq, b0, c8(0xF4)), c8(0x8F), c8(0xBF))
		ok1 := mkAnd(mkPred(opULe, lo, b1), mkPred(opULe, b1, hi))
		if !i.decide(ok1) {
			return bad()
		}
		if !i.decide(inRange(b2, 0x80, 0xBF)) {
			return bad()
		}
		if !i.decide(inRange(b3, 0x80, 0xBF)) {
			return bad()
		}
		r := mkBin(opOr, mkBin(opOr, mkBin(opOr,
			mkBin(opShl, z32(mkBin(opAnd, b0, c8(0x07))), mkConst(18, 32)),
			mkBin(opShl, z32(mkBin(opAnd, b1, c8(0x3F))), mkConst(12, 32))),
			mkBin(opShl, z32(mkBin(opAnd, b2, c8(0x3F))), mkConst(6, 32))),
			z32(mkBin(opAnd, b3, c8(0x3F))))
		return fromTerm(r, types.Int32), 4
	}
	return bad()
}

// decodeLastRuneSym mirrors utf8.DecodeLastRune on a non-empty byte list.
func decodeLastRuneSym(i *interpreter, b []value) (value, int) {
	end := len(b)
	last := b[end-1]
	if c, ok := last.(uint8); ok && c < 0x80 {
		return int32(c), 1
	}
	if isSym(last) {
		if i.decide(mkPred(opULt, termOf(last), mkConst(0x80, 8))) {
			return fromTerm(mkZext(termOf(last), 32), types.Int32), 1
		}
	}
	// Scan backwards for a start byte, at most UTFMax bytes.
	lim := end - utf8.UTFMax
	if lim < 0 {
		lim = 0
	}
	start := end - 1
	for start--; start >= lim; start-- {
		isStart := mkNot(mkPred(opEq, mkBin(opAnd, termOf(b[start]), mkConst(0xC0, 8)), mkConst(0x80, 8)))
		if i.decide(isStart) {
			break
		}
	}
	if start < lim {
		start = lim
	}
	r, size := decodeRuneSym(i, b[start:end])
	if start+size != end {
		return int32(utf8.RuneError), 1
	}
	return r, size
}

// encodeRuneSym returns the UTF-8 bytes of rune r (int32 or sym), forking on
// the encoded length when r is symbolic (as string(rune) does, including the
// replacement of invalid runes by U+FFFD).
func encodeRuneSym(i *interpreter, r value) []value {
	if c, ok := r.(int32); ok {
		s := string(rune(c))
		return strBytes(s)
	}
	t := termOf(r) // 32-bit
	c32 := func(v uint64) *term { return mkConst(v, 32) }
	low8 := func(x *term) value { return fromTerm(mkExtract(x, 0, 8), types.Uint8) }
	shr := func(x *term, n uint64) *term { return mkBin(opLShr, x, c32(n)) }
	and := func(x *term, m uint64) *term { return mkBin(opAnd, x, c32(m)) }
	or := func(x *term, m uint64) *term { return mkBin(opOr, x, c32(m)) }
	if i.decide(mkPred(opULt, t, c32(0x80))) { // also excludes negatives (unsigned compare)
		return []value{low8(t)}
	}
	if i.decide(mkPred(opULt, t, c32(0x800))) {
		return []value{low8(or(shr(t, 6), 0xC0)), low8(or(and(t, 0x3F), 0x80))}
	}
	invalid := mkOr(mkPred(opULt, c32(0x10FFFF), t), mkAnd(mkPred(opULe, c32(0xD800), t), mkPred(opULe, t, c32(0xDFFF))))
	if i.decide(invalid) {
		return strBytes("�")
	}
	if i.decide(mkPred(opULt, t, c32(0x10000))) {
		return []value{low8(or(shr(t, 12), 0xE0)), low8(or(and(shr(t, 6), 0x3F), 0x80)), low8(or(and(t, 0x3F), 0x80))}
	}
	return []value{low8(or(shr(t, 18), 0xF0)), low8(or(and(shr(t, 12), 0x3F), 0x80)), low8(or(and(shr(t, 6), 0x3F), 0x80)), low8(or(and(t, 0x3F), 0x80))}
}

// symStringIter iterates over the runes of a symstr.
type symStringIter struct {
	i   *interpreter
	b   []value
	pos int
}

func (it *symStringIter) next() tuple {
	okv := make(tuple, 3)
	if it.pos >= len(it.b) {
		okv[0] = false
		return okv
	}
	r, n := decodeRuneSym(it.i, it.b[it.pos:])
	okv[0] = true
	okv[1] = it.pos
	okv[2] = r
	it.pos += n
	return okv
}

// symElemPtr is the address of arr[idx] for a symbolic idx into a table of
// concrete scalars (e.g. utf8.first, strconv tables).
type symElemPtr struct {
	arr array
	idx sym
}

func allConcreteScalars(a array) bool {
	for _, e := range a {
		if _, ok := kindOf(e); !ok {
			return false
		}
		if _, isBool := e.(bool); isBool {
			return false
		}
	}
	return len(a) > 0
}

// load builds the value of arr[idx] as an if-then-else chain over runs of
// equal table entries.
func (sp symElemPtr) load() value {
	a := sp.arr
	k := scalarKind(a[0])
	w := sp.idx.t.w
	res := termOf(a[len(a)-1])
	// runs, from the end
	j := len(a) - 1
	for j >= 0 {
		v := asInt64(a[j])
		lo := j
		for lo > 0 && asInt64(a[lo-1]) == v {
			lo--
		}
		if j != len(a)-1 || lo != 0 {
			var cond *term
			if lo == j {
				cond = mkPred(opEq, sp.idx.t, mkConst(uint64(lo), w))
			} else {
				cond = mkAnd(mkPred(opULe, mkConst(uint64(lo), w), sp.idx.t), mkPred(opULe, sp.idx.t, mkConst(uint64(j), w)))
			}
			res = mkIte(cond, termOf(a[j]), res)
		}
		j = lo - 1
	}
	return fromTerm(res, k)
}
