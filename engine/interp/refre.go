package interp

// refre: a reference regular-expression matcher over regexp/syntax trees
// that works on strings whose bytes may be symbolic.  It implements Go's
// leftmost-first (Perl preference order) semantics by backtracking; every
// test on a symbolic byte is an engine decision (a fork).  It stands in for
// (*regexp.Regexp).Find* when the subject is symbolic; it is validated
// natively against package regexp (see cmd/gosym -validate-refre) and a
// counterexample is always replayed against the real regexp before it is
// reported, so a defect here cannot raise a false alarm.

import (
	"regexp"
	"regexp/syntax"
	"sync"
	"unicode"
	"unicode/utf8"

	"go/types"
)

var (
	reTreeMu    sync.Mutex
	reTreeCache = map[string]*syntax.Regexp{}
)

func parseTree(pattern string) *syntax.Regexp {
	reTreeMu.Lock()
	defer reTreeMu.Unlock()
	if t, ok := reTreeCache[pattern]; ok {
		return t
	}
	t, err := syntax.Parse(pattern, syntax.Perl)
	if err != nil {
		panic(unsupported("refre: cannot parse " + pattern + ": " + err.Error()))
	}
	reTreeCache[pattern] = t
	return t
}

// symRegexp is a compiled pattern some of whose literal runes are symbolic
// bytes (placeholders map private-use runes to byte values).
type symRegexp struct {
	tree   *syntax.Regexp
	holes  map[rune]value
	source string
	ncap   int
}

type reMatcher struct {
	i      *interpreter
	b      []value
	caps   []int
	holes  map[rune]value
	decode map[int]decoded
	memo   map[reMemoKey]bool
}

type decoded struct {
	r  value
	sz int
}

type reMemoKey struct {
	pos int
	re  *syntax.Regexp
	idx int
}

func (m *reMatcher) runeAt(p int) (value, int) {
	if d, ok := m.decode[p]; ok {
		return d.r, d.sz
	}
	r, sz := decodeRuneSym(m.i, m.b[p:])
	m.decode[p] = decoded{r, sz}
	return r, sz
}

// test decides cond once per (position, node, index).
func (m *reMatcher) test(p int, re *syntax.Regexp, idx int, cond func() *term) bool {
	k := reMemoKey{p, re, idx}
	if v, ok := m.memo[k]; ok {
		return v
	}
	v := m.i.decide(cond())
	m.memo[k] = v
	return v
}

func runeTerm(r value) *term { return termOf(r) } // 32-bit

func runeEqTerm(r value, c rune) *term {
	return mkPred(opEq, runeTerm(r), mkConst(uint64(uint32(c)), 32))
}

func inRangesTerm(r value, ranges []rune) *term {
	t := runeTerm(r)
	res := termFalse
	for j := 0; j+1 < len(ranges); j += 2 {
		lo, hi := ranges[j], ranges[j+1]
		var c *term
		if lo == hi {
			c = mkPred(opEq, t, mkConst(uint64(uint32(lo)), 32))
		} else {
			c = mkAnd(mkPred(opSLe, mkConst(uint64(uint32(lo)), 32), t), mkPred(opSLe, t, mkConst(uint64(uint32(hi)), 32)))
		}
		res = mkOr(res, c)
	}
	return res
}

func isWordByteTerm(b value) *term {
	t := termOf(b)
	c := func(v byte) *term { return mkConst(uint64(v), 8) }
	rng := func(lo, hi byte) *term { return mkAnd(mkPred(opULe, c(lo), t), mkPred(opULe, t, c(hi))) }
	return mkOr(mkOr(rng('a', 'z'), rng('A', 'Z')), mkOr(rng('0', '9'), mkPred(opEq, t, c('_'))))
}

func (m *reMatcher) match(re *syntax.Regexp, p int, k func(int) bool) bool {
	n := len(m.b)
	switch re.Op {
	case syntax.OpNoMatch:
		return false
	case syntax.OpEmptyMatch:
		return k(p)
	case syntax.OpLiteral:
		for idx, c := range re.Rune {
			if p >= n {
				return false
			}
			if hole, ok := m.holes[c]; ok {
				// symbolic literal byte
				pp := p
				if !m.test(p, re, idx, func() *term { return mkPred(opEq, termOf(m.b[pp]), termOf(hole)) }) {
					return false
				}
				p++
				continue
			}
			r, sz := m.runeAt(p)
			cc := c
			fold := re.Flags&syntax.FoldCase != 0
			if !m.test(p, re, idx, func() *term {
				t := runeEqTerm(r, cc)
				if fold {
					for f := unicode.SimpleFold(cc); f != cc; f = unicode.SimpleFold(f) {
						t = mkOr(t, runeEqTerm(r, f))
					}
				}
				return t
			}) {
				return false
			}
			p += sz
		}
		return k(p)
	case syntax.OpCharClass:
		if p >= n {
			return false
		}
		r, sz := m.runeAt(p)
		if !m.test(p, re, 0, func() *term { return inRangesTerm(r, re.Rune) }) {
			return false
		}
		return k(p + sz)
	case syntax.OpAnyCharNotNL:
		if p >= n {
			return false
		}
		r, sz := m.runeAt(p)
		if !m.test(p, re, 0, func() *term { return mkNot(runeEqTerm(r, '\n')) }) {
			return false
		}
		return k(p + sz)
	case syntax.OpAnyChar:
		if p >= n {
			return false
		}
		_, sz := m.runeAt(p)
		return k(p + sz)
	case syntax.OpBeginLine:
		if p != 0 {
			pp := p
			if !m.test(p, re, 0, func() *term { return mkPred(opEq, termOf(m.b[pp-1]), mkConst('\n', 8)) }) {
				return false
			}
		}
		return k(p)
	case syntax.OpEndLine:
		if p != n {
			pp := p
			if !m.test(p, re, 0, func() *term { return mkPred(opEq, termOf(m.b[pp]), mkConst('\n', 8)) }) {
				return false
			}
		}
		return k(p)
	case syntax.OpBeginText:
		if p != 0 {
			return false
		}
		return k(p)
	case syntax.OpEndText:
		if p != n {
			return false
		}
		return k(p)
	case syntax.OpWordBoundary, syntax.OpNoWordBoundary:
		pp := p
		cond := func() *term {
			w1, w2 := termFalse, termFalse
			if pp > 0 {
				w1 = isWordByteTerm(m.b[pp-1])
			}
			if pp < n {
				w2 = isWordByteTerm(m.b[pp])
			}
			boundary := mkNot(mkPred(opEq, w1, w2))
			if re.Op == syntax.OpNoWordBoundary {
				return mkNot(boundary)
			}
			return boundary
		}
		if !m.test(p, re, 0, cond) {
			return false
		}
		return k(p)
	case syntax.OpCapture:
		c := re.Cap
		old0 := m.caps[2*c]
		old1 := m.caps[2*c+1]
		ok := m.match(re.Sub[0], p, func(q int) bool {
			s0, s1 := m.caps[2*c], m.caps[2*c+1]
			m.caps[2*c], m.caps[2*c+1] = p, q
			if k(q) {
				return true
			}
			m.caps[2*c], m.caps[2*c+1] = s0, s1
			return false
		})
		if !ok {
			m.caps[2*c], m.caps[2*c+1] = old0, old1
		}
		return ok
	case syntax.OpConcat:
		return m.concat(re.Sub, p, k)
	case syntax.OpAlternate:
		for _, s := range re.Sub {
			if m.match(s, p, k) {
				return true
			}
		}
		return false
	case syntax.OpStar:
		return m.loop(re, re.Sub[0], 0, -1, p, k)
	case syntax.OpPlus:
		return m.loop(re, re.Sub[0], 1, -1, p, k)
	case syntax.OpQuest:
		return m.loop(re, re.Sub[0], 0, 1, p, k)
	case syntax.OpRepeat:
		return m.loop(re, re.Sub[0], re.Min, re.Max, p, k)
	}
	panic(unsupported("refre: regexp op " + re.Op.String()))
}

func (m *reMatcher) concat(subs []*syntax.Regexp, p int, k func(int) bool) bool {
	if len(subs) == 0 {
		return k(p)
	}
	return m.match(subs[0], p, func(q int) bool { return m.concat(subs[1:], q, k) })
}

// loop matches sub between min and max times (max < 0: unbounded).
func (m *reMatcher) loop(re, sub *syntax.Regexp, min, max int, p int, k func(int) bool) bool {
	greedy := re.Flags&syntax.NonGreedy == 0
	var iter func(count int, p int) bool
	iter = func(count int, p int) bool {
		more := func() bool {
			if max >= 0 && count >= max {
				return false
			}
			return m.match(sub, p, func(q int) bool {
				if q == p && count >= min {
					// an empty iteration beyond the minimum does not repeat;
					// regexp compiles x* with a nullable x as (?:x+)?, so the
					// very first iteration may be empty (and sets x's groups),
					// after which the loop is left
					if count == 0 {
						return k(q)
					}
					return false
				}
				return iter(count+1, q)
			})
		}
		if count < min {
			return more()
		}
		if greedy {
			if more() {
				return true
			}
			return k(p)
		}
		if k(p) {
			return true
		}
		return more()
	}
	return iter(0, p)
}

func countCaps(re *syntax.Regexp) int {
	n := 0
	if re.Op == syntax.OpCapture && re.Cap > n {
		n = re.Cap
	}
	for _, s := range re.Sub {
		if c := countCaps(s); c > n {
			n = c
		}
	}
	return n
}

// refreFindTree returns the submatch index vector of the leftmost-first
// match of tree in b, or nil.
func (i *interpreter) refreFindTree(tree *syntax.Regexp, holes map[rune]value, b []value) []int {
	ncap := countCaps(tree)
	i.modelsHit["refre: reference matcher for regexp on symbolic input"] = true
	anchored := startsWithBeginText(tree)
	for start := 0; start <= len(b); start++ {
		m := &reMatcher{i: i, b: b, holes: holes, decode: map[int]decoded{}, memo: map[reMemoKey]bool{}}
		m.caps = make([]int, 2*(ncap+1))
		for j := range m.caps {
			m.caps[j] = -1
		}
		end := -1
		if m.match(tree, start, func(q int) bool { end = q; return true }) {
			m.caps[0], m.caps[1] = start, end
			return m.caps
		}
		if anchored {
			break
		}
	}
	return nil
}

func startsWithBeginText(re *syntax.Regexp) bool {
	switch re.Op {
	case syntax.OpBeginText:
		return true
	case syntax.OpConcat:
		return len(re.Sub) > 0 && startsWithBeginText(re.Sub[0])
	case syntax.OpCapture:
		return startsWithBeginText(re.Sub[0])
	}
	return false
}

func (i *interpreter) refreFind(re *regexp.Regexp, b []value) []int {
	return i.refreFindTree(parseTree(re.String()), nil, b)
}

// RefreFindConcrete runs the reference matcher on a concrete string (used by
// the native validation against package regexp).
func RefreFindConcrete(pattern string, s string) []int {
	i := &interpreter{modelsHit: map[string]bool{}}
	return i.refreFindTree(parseTree(pattern), nil, strBytes(s))
}

// compileSymbolicPattern handles regexp.Compile on a pattern that contains
// symbolic bytes (a back-reference expansion).  Each symbolic byte is forked
// into "one of the regexp metacharacters" (made concrete) or "an ordinary
// ASCII byte" (kept symbolic as a literal hole).  Bytes >= 0x80 are outside
// the bound (reported as unsupported).
func (i *interpreter) compileSymbolicPattern(pat symstr) value {
	const special = "\\.+*?()|[]{}^$"
	holes := map[rune]value{}
	var sb []byte
	next := rune(0xE000)
	for _, b := range pat.b {
		if c, ok := b.(uint8); ok {
			sb = append(sb, c)
			continue
		}
		t := termOf(b)
		if i.decide(mkPred(opULe, mkConst(0x80, 8), t)) {
			panic(unsupported("symbolic pattern byte >= 0x80 (outside the stated bound)"))
		}
		isSp := termFalse
		for j := 0; j < len(special); j++ {
			isSp = mkOr(isSp, mkPred(opEq, t, mkConst(uint64(special[j]), 8)))
		}
		if i.decide(isSp) {
			cands := make([]int64, len(special))
			for j := range cands {
				cands[j] = int64(special[j])
			}
			sb = append(sb, byte(i.concretize(b, cands)))
			continue
		}
		// other ASCII bytes that are not literal in every context
		// (digits after a backslash, '-' and ':' inside classes, flags after
		// "(?") are treated as literals: the catalogue's patterns place \N
		// only in literal context.
		holes[next] = b
		sb = utf8.AppendRune(sb, next)
		next++
	}
	// patterns are valid UTF-8 only if the concrete bytes are; build string
	src := string(sb)
	if !utf8.ValidString(src) {
		return tuple{(*value)(nil), i.mkError("error parsing regexp: invalid UTF-8")}
	}
	tree, err := syntax.Parse(src, syntax.Perl)
	if err != nil {
		return tuple{(*value)(nil), i.mkError(err.Error())}
	}
	sr := &symRegexp{tree: tree, holes: holes, source: src}
	var cell value = hostHandle{sr}
	_ = types.Int
	return tuple{&cell, iface{}}
}

// ---------------------------------------------------------------------
// Possessive reference matcher: every repetition and choice keeps its first
// (greedy, leftmost) result and never gives characters back.  This is the
// matching discipline the lexer generator documents for emitted code; C05
// tolerates a difference between generated and runtime lexer only on inputs
// where this matcher and the backtracking matcher disagree on some rule.

func (m *reMatcher) pmatch(re *syntax.Regexp, p int) int {
	switch re.Op {
	case syntax.OpNoMatch:
		return -1
	case syntax.OpEmptyMatch:
		return p
	case syntax.OpLiteral, syntax.OpCharClass, syntax.OpAnyCharNotNL, syntax.OpAnyChar,
		syntax.OpBeginLine, syntax.OpEndLine, syntax.OpBeginText, syntax.OpEndText,
		syntax.OpWordBoundary, syntax.OpNoWordBoundary:
		end := -1
		m.match(re, p, func(q int) bool { end = q; return true })
		return end
	case syntax.OpCapture:
		q := m.pmatch(re.Sub[0], p)
		if q >= 0 {
			m.caps[2*re.Cap], m.caps[2*re.Cap+1] = p, q
		}
		return q
	case syntax.OpConcat:
		for _, s := range re.Sub {
			if p = m.pmatch(s, p); p < 0 {
				return -1
			}
		}
		return p
	case syntax.OpAlternate:
		for _, s := range re.Sub {
			if q := m.pmatch(s, p); q >= 0 {
				return q
			}
		}
		return -1
	case syntax.OpStar, syntax.OpPlus, syntax.OpQuest, syntax.OpRepeat:
		min, max := 0, -1
		switch re.Op {
		case syntax.OpPlus:
			min = 1
		case syntax.OpQuest:
			max = 1
		case syntax.OpRepeat:
			min, max = re.Min, re.Max
		}
		if re.Flags&syntax.NonGreedy != 0 {
			panic(unsupported("possessive matcher: non-greedy operator"))
		}
		count := 0
		for max < 0 || count < max {
			q := m.pmatch(re.Sub[0], p)
			if q < 0 {
				break
			}
			count++
			if q == p {
				break // an empty iteration does not repeat
			}
			p = q
		}
		if count < min {
			return -1
		}
		return p
	}
	panic(unsupported("possessive matcher: regexp op " + re.Op.String()))
}

// possessiveFindTree matches tree at the start of b possessively and returns
// the submatch index vector or nil.
func (i *interpreter) possessiveFindTree(tree *syntax.Regexp, holes map[rune]value, b []value) []int {
	ncap := countCaps(tree)
	m := &reMatcher{i: i, b: b, holes: holes, decode: map[int]decoded{}, memo: map[reMemoKey]bool{}}
	m.caps = make([]int, 2*(ncap+1))
	for j := range m.caps {
		m.caps[j] = -1
	}
	end := m.pmatch(tree, 0)
	if end < 0 {
		return nil
	}
	m.caps[0], m.caps[1] = 0, end
	return m.caps
}

// RefrePossessiveConcrete is the possessive matcher on a concrete string.
func RefrePossessiveConcrete(pattern string, s string) []int {
	i := &interpreter{modelsHit: map[string]bool{}}
	return i.possessiveFindTree(parseTree(pattern), nil, strBytes(s))
}
