package interp

// Terms: the SMT side of symbolic values.  QF_BV plus Bool.  Every
// constructor folds constants, so a term with a constant value is always an
// opConst node and callers can keep concrete values concrete.

import (
	"fmt"
	"strings"
)

type opcode uint8

const (
	opConst opcode = iota // k = value (bool: 0/1)
	opVar                 // name
	// bit-vector arithmetic (a, b same width)
	opAdd
	opSub
	opMul
	opUDiv
	opSDiv
	opURem
	opSRem
	opAnd
	opOr
	opXor
	opShl
	opLShr
	opAShr
	opNeg
	opBNot
	// width changing
	opZext    // a → width w
	opSext    // a → width w
	opExtract // a[k+w-1 : k]
	opConcat  // a ++ b
	// predicates (result bool, w == 0)
	opEq
	opULt
	opULe
	opSLt
	opSLe
	// boolean
	opNot
	opBAnd
	opBOr
	opIte // c ? a : b (bool or bv)
)

type term struct {
	op      opcode
	w       uint8 // 0 = Bool, otherwise bit width
	a, b, c *term
	k       uint64
	name    string
	id      int    // >0 once defined in the solver for the current path
	h       uint64 // structural hash
	nv      int8   // variable census memo: 0 unknown, 1 one var (v1), 2 several, 3 none
	v1      *term
}

func hmix(h, x uint64) uint64 {
	h ^= x + 0x9e3779b97f4a7c15 + (h << 6) + (h >> 2)
	return h * 0xff51afd7ed558ccd
}

// nt finalises a freshly built term (computes its structural hash).
func nt(t *term) *term {
	h := hmix(uint64(t.op)+1, uint64(t.w))
	h = hmix(h, t.k)
	for i := 0; i < len(t.name); i++ {
		h = hmix(h, uint64(t.name[i]))
	}
	for _, x := range [3]*term{t.a, t.b, t.c} {
		if x != nil {
			h = hmix(h, x.h)
		} else {
			h = hmix(h, 0)
		}
	}
	t.h = h
	return t
}

// termEq is structural equality.
func termEq(x, y *term) bool {
	if x == y {
		return true
	}
	if x == nil || y == nil {
		return false
	}
	if x.h != y.h || x.op != y.op || x.w != y.w || x.k != y.k || x.name != y.name {
		return false
	}
	return termEq(x.a, y.a) && termEq(x.b, y.b) && termEq(x.c, y.c)
}

func mask(w uint8) uint64 {
	if w >= 64 {
		return ^uint64(0)
	}
	return (uint64(1) << w) - 1
}

func signExt(v uint64, w uint8) int64 {
	if w >= 64 {
		return int64(v)
	}
	sh := 64 - uint(w)
	return int64(v<<sh) >> sh
}

var (
	termTrue  = nt(&term{op: opConst, w: 0, k: 1})
	termFalse = nt(&term{op: opConst, w: 0, k: 0})
)

func mkBool(b bool) *term {
	if b {
		return termTrue
	}
	return termFalse
}

func mkConst(v uint64, w uint8) *term {
	if w == 0 {
		return mkBool(v != 0)
	}
	return nt(&term{op: opConst, w: w, k: v & mask(w)})
}

func mkVar(name string, w uint8) *term {
	return nt(&term{op: opVar, w: w, name: name})
}

func (t *term) isConst() bool { return t.op == opConst }
func (t *term) isTrue() bool  { return t.op == opConst && t.w == 0 && t.k == 1 }
func (t *term) isFalse() bool { return t.op == opConst && t.w == 0 && t.k == 0 }

func evalBV(op opcode, w uint8, x, y uint64) uint64 {
	m := mask(w)
	switch op {
	case opAdd:
		return (x + y) & m
	case opSub:
		return (x - y) & m
	case opMul:
		return (x * y) & m
	case opUDiv:
		if y == 0 {
			return m // SMT-LIB semantics
		}
		return (x / y) & m
	case opURem:
		if y == 0 {
			return x
		}
		return (x % y) & m
	case opSDiv:
		sx, sy := signExt(x, w), signExt(y, w)
		if sy == 0 {
			if sx < 0 {
				return 1
			}
			return m
		}
		if sy == -1 {
			return uint64(-sx) & m
		}
		return uint64(sx/sy) & m
	case opSRem:
		sx, sy := signExt(x, w), signExt(y, w)
		if sy == 0 {
			return x
		}
		if sy == -1 {
			return 0
		}
		return uint64(sx%sy) & m
	case opAnd:
		return x & y
	case opOr:
		return x | y
	case opXor:
		return x ^ y
	case opShl:
		if y >= uint64(w) {
			return 0
		}
		return (x << y) & m
	case opLShr:
		if y >= uint64(w) {
			return 0
		}
		return x >> y
	case opAShr:
		sx := signExt(x, w)
		if y >= uint64(w) {
			if sx < 0 {
				return m
			}
			return 0
		}
		return uint64(sx>>y) & m
	}
	panic("evalBV: bad op")
}

func evalPred(op opcode, w uint8, x, y uint64) bool {
	switch op {
	case opEq:
		return x == y
	case opULt:
		return x < y
	case opULe:
		return x <= y
	case opSLt:
		return signExt(x, w) < signExt(y, w)
	case opSLe:
		return signExt(x, w) <= signExt(y, w)
	}
	panic("evalPred: bad op")
}

func mkBin(op opcode, x, y *term) *term {
	if x.w != y.w {
		panic(fmt.Sprintf("mkBin: width mismatch %d vs %d (op %d)", x.w, y.w, op))
	}
	if x.isConst() && y.isConst() {
		return mkConst(evalBV(op, x.w, x.k, y.k), x.w)
	}
	// light identities
	switch op {
	case opAdd, opOr, opXor:
		if x.isConst() && x.k == 0 {
			return y
		}
		if y.isConst() && y.k == 0 {
			return x
		}
	case opSub, opShl, opLShr, opAShr:
		if y.isConst() && y.k == 0 {
			return x
		}
	case opAnd:
		if x.isConst() && x.k == mask(x.w) {
			return y
		}
		if y.isConst() && y.k == mask(y.w) {
			return x
		}
		if (x.isConst() && x.k == 0) || (y.isConst() && y.k == 0) {
			return mkConst(0, x.w)
		}
	case opMul:
		if x.isConst() && x.k == 1 {
			return y
		}
		if y.isConst() && y.k == 1 {
			return x
		}
	}
	return nt(&term{op: op, w: x.w, a: x, b: y})
}

func mkNeg(x *term) *term {
	if x.isConst() {
		return mkConst(-x.k, x.w)
	}
	return nt(&term{op: opNeg, w: x.w, a: x})
}

func mkBNot(x *term) *term {
	if x.isConst() {
		return mkConst(^x.k, x.w)
	}
	return nt(&term{op: opBNot, w: x.w, a: x})
}

func mkPred(op opcode, x, y *term) *term {
	if x.w != y.w {
		panic(fmt.Sprintf("mkPred: width mismatch %d vs %d", x.w, y.w))
	}
	if x.isConst() && y.isConst() {
		if x.w == 0 {
			if op != opEq {
				panic("mkPred: ordered comparison of bools")
			}
			return mkBool(x.k == y.k)
		}
		return mkBool(evalPred(op, x.w, x.k, y.k))
	}
	if x == y {
		switch op {
		case opEq, opULe, opSLe:
			return termTrue
		default:
			return termFalse
		}
	}
	if x.w == 0 && op == opEq {
		// bool equality
		if x.isConst() {
			if x.k == 1 {
				return y
			}
			return mkNot(y)
		}
		if y.isConst() {
			if y.k == 1 {
				return x
			}
			return mkNot(x)
		}
	}
	return nt(&term{op: op, w: 0, a: x, b: y})
}

func mkNot(x *term) *term {
	if x.w != 0 {
		panic("mkNot: not bool")
	}
	if x.isConst() {
		return mkBool(x.k == 0)
	}
	if x.op == opNot {
		return x.a
	}
	return nt(&term{op: opNot, w: 0, a: x})
}

func mkAnd(x, y *term) *term {
	if x.isConst() {
		if x.k == 0 {
			return termFalse
		}
		return y
	}
	if y.isConst() {
		if y.k == 0 {
			return termFalse
		}
		return x
	}
	if x == y {
		return x
	}
	return nt(&term{op: opBAnd, w: 0, a: x, b: y})
}

func mkOr(x, y *term) *term {
	if x.isConst() {
		if x.k == 1 {
			return termTrue
		}
		return y
	}
	if y.isConst() {
		if y.k == 1 {
			return termTrue
		}
		return x
	}
	if x == y {
		return x
	}
	return nt(&term{op: opBOr, w: 0, a: x, b: y})
}

func mkIte(c, x, y *term) *term {
	if x.w != y.w {
		panic("mkIte: width mismatch")
	}
	if c.isConst() {
		if c.k == 1 {
			return x
		}
		return y
	}
	if x == y {
		return x
	}
	if x.isConst() && y.isConst() && x.k == y.k {
		return x
	}
	if x.w == 0 && x.isConst() && y.isConst() {
		if x.k == 1 { // c ? true : false
			return c
		}
		return mkNot(c)
	}
	return nt(&term{op: opIte, w: x.w, a: x, b: y, c: c})
}

func mkZext(x *term, w uint8) *term {
	if x.w == w {
		return x
	}
	if x.w > w {
		return mkExtract(x, 0, w)
	}
	if x.isConst() {
		return mkConst(x.k, w)
	}
	return nt(&term{op: opZext, w: w, a: x})
}

func mkSext(x *term, w uint8) *term {
	if x.w == w {
		return x
	}
	if x.w > w {
		return mkExtract(x, 0, w)
	}
	if x.isConst() {
		return mkConst(uint64(signExt(x.k, x.w)), w)
	}
	return nt(&term{op: opSext, w: w, a: x})
}

// mkExtract returns bits [lo, lo+w) of x.
func mkExtract(x *term, lo uint8, w uint8) *term {
	if lo == 0 && w == x.w {
		return x
	}
	if x.isConst() {
		return mkConst(x.k>>lo, w)
	}
	if (x.op == opZext || x.op == opSext) && lo == 0 && w <= x.a.w {
		return mkExtract(x.a, 0, w)
	}
	return nt(&term{op: opExtract, w: w, a: x, k: uint64(lo)})
}

func mkConcat(hi, lo *term) *term {
	if hi.isConst() && lo.isConst() {
		return mkConst(hi.k<<lo.w|lo.k, hi.w+lo.w)
	}
	return nt(&term{op: opConcat, w: hi.w + lo.w, a: hi, b: lo})
}

// ---------------------------------------------------------------------
// Evaluation under a model (variable name → value).

type model map[string]uint64

func (t *term) eval(m model, memo map[*term]uint64) uint64 {
	switch t.op {
	case opConst:
		return t.k
	case opVar:
		return m[t.name] & maskOrBool(t.w)
	}
	if v, ok := memo[t]; ok {
		return v
	}
	var r uint64
	switch t.op {
	case opAdd, opSub, opMul, opUDiv, opSDiv, opURem, opSRem, opAnd, opOr, opXor, opShl, opLShr, opAShr:
		r = evalBV(t.op, t.w, t.a.eval(m, memo), t.b.eval(m, memo))
	case opNeg:
		r = (-t.a.eval(m, memo)) & mask(t.w)
	case opBNot:
		r = (^t.a.eval(m, memo)) & mask(t.w)
	case opZext:
		r = t.a.eval(m, memo)
	case opSext:
		r = uint64(signExt(t.a.eval(m, memo), t.a.w)) & mask(t.w)
	case opExtract:
		r = (t.a.eval(m, memo) >> t.k) & mask(t.w)
	case opConcat:
		r = t.a.eval(m, memo)<<t.b.w | t.b.eval(m, memo)
	case opEq, opULt, opULe, opSLt, opSLe:
		if evalPredOrBool(t.op, t.a.w, t.a.eval(m, memo), t.b.eval(m, memo)) {
			r = 1
		}
	case opNot:
		r = 1 - t.a.eval(m, memo)
	case opBAnd:
		r = t.a.eval(m, memo) & t.b.eval(m, memo)
	case opBOr:
		r = t.a.eval(m, memo) | t.b.eval(m, memo)
	case opIte:
		if t.c.eval(m, memo) != 0 {
			r = t.a.eval(m, memo)
		} else {
			r = t.b.eval(m, memo)
		}
	default:
		panic("eval: bad op")
	}
	memo[t] = r
	return r
}

func maskOrBool(w uint8) uint64 {
	if w == 0 {
		return 1
	}
	return mask(w)
}

func evalPredOrBool(op opcode, w uint8, x, y uint64) bool {
	if w == 0 {
		return x == y
	}
	return evalPred(op, w, x, y)
}

// ---------------------------------------------------------------------
// SMT-LIB2 printing.  Non-leaf terms are emitted once per path as
// (define-fun tN () sort body) so that shared sub-terms stay shared.

type smtEmitter struct {
	sb     strings.Builder
	nextID int
}

func sortOf(w uint8) string {
	if w == 0 {
		return "Bool"
	}
	return fmt.Sprintf("(_ BitVec %d)", w)
}

func constLit(v uint64, w uint8) string {
	if w == 0 {
		if v != 0 {
			return "true"
		}
		return "false"
	}
	if w%4 == 0 {
		return fmt.Sprintf("#x%0*x", int(w/4), v&mask(w))
	}
	return fmt.Sprintf("(_ bv%d %d)", v&mask(w), w)
}

var opNames = map[opcode]string{
	opAdd: "bvadd", opSub: "bvsub", opMul: "bvmul", opUDiv: "bvudiv", opSDiv: "bvsdiv",
	opURem: "bvurem", opSRem: "bvsrem", opAnd: "bvand", opOr: "bvor", opXor: "bvxor",
	opShl: "bvshl", opLShr: "bvlshr", opAShr: "bvashr", opNeg: "bvneg", opBNot: "bvnot",
	opEq: "=", opULt: "bvult", opULe: "bvule", opSLt: "bvslt", opSLe: "bvsle",
	opNot: "not", opBAnd: "and", opBOr: "or", opConcat: "concat",
}

// ref returns the SMT text that denotes t, emitting definitions into e.sb as
// needed.
func (e *smtEmitter) ref(t *term) string {
	switch t.op {
	case opConst:
		return constLit(t.k, t.w)
	case opVar:
		return t.name
	}
	if t.id > 0 {
		return fmt.Sprintf("t%d", t.id)
	}
	var body string
	switch t.op {
	case opNeg, opBNot, opNot:
		body = fmt.Sprintf("(%s %s)", opNames[t.op], e.ref(t.a))
	case opZext:
		body = fmt.Sprintf("((_ zero_extend %d) %s)", t.w-t.a.w, e.ref(t.a))
	case opSext:
		body = fmt.Sprintf("((_ sign_extend %d) %s)", t.w-t.a.w, e.ref(t.a))
	case opExtract:
		body = fmt.Sprintf("((_ extract %d %d) %s)", int(t.k)+int(t.w)-1, t.k, e.ref(t.a))
	case opIte:
		body = fmt.Sprintf("(ite %s %s %s)", e.ref(t.c), e.ref(t.a), e.ref(t.b))
	default:
		body = fmt.Sprintf("(%s %s %s)", opNames[t.op], e.ref(t.a), e.ref(t.b))
	}
	e.nextID++
	t.id = e.nextID
	fmt.Fprintf(&e.sb, "(define-fun t%d () %s %s)\n", t.id, sortOf(t.w), body)
	return fmt.Sprintf("t%d", t.id)
}

// String renders a term for humans (evidence samples, logs); bounded depth.
func (t *term) String() string {
	var sb strings.Builder
	t.write(&sb, 6)
	return sb.String()
}

func (t *term) write(sb *strings.Builder, depth int) {
	switch t.op {
	case opConst:
		if t.w == 0 {
			sb.WriteString(constLit(t.k, 0))
		} else {
			fmt.Fprintf(sb, "%d", signExt(t.k, t.w))
		}
		return
	case opVar:
		sb.WriteString(t.name)
		return
	}
	if depth == 0 {
		sb.WriteString("…")
		return
	}
	name := opNames[t.op]
	switch t.op {
	case opZext:
		name = "zext"
	case opSext:
		name = "sext"
	case opExtract:
		name = fmt.Sprintf("extract[%d+%d]", t.k, t.w)
	case opIte:
		name = "ite"
	}
	sb.WriteString("(" + name)
	for _, x := range []*term{t.c, t.a, t.b} {
		if x != nil {
			sb.WriteByte(' ')
			x.write(sb, depth-1)
		}
	}
	sb.WriteByte(')')
}
