// Copyright 2013 The Go Authors. All rights reserved.
// Use of this source code is governed by a BSD-style
// license that can be found in the LICENSE file.

// Package ssa/interp defines an interpreter for the SSA
// representation of Go programs.
//
// This interpreter is provided as an adjunct for testing the SSA
// construction algorithm.  Its purpose is to provide a minimal
// metacircular implementation of the dynamic semantics of each SSA
// instruction.  It is not, and will never be, a production-quality Go
// interpreter.
//
// The following is a partial list of Go features that are currently
// unsupported or incomplete in the interpreter.
//
// * Unsafe operations, including all uses of unsafe.Pointer, are
// impossible to support given the "boxed" value representation we
// have chosen.
//
// * The reflect package is only partially implemented.
//
// * The "testing" package is no longer supported because it
// depends on low-level details that change too often.
//
// * "sync/atomic" operations are not atomic due to the "boxed" value
// representation: it is not possible to read, modify and write an
// interface value atomically. As a consequence, Mutexes are currently
// broken.
//
// * recover is only partially implemented.  Also, the interpreter
// makes no attempt to distinguish target panics from interpreter
// crashes.
//
// * the sizes of the int, uint and uintptr types in the target
// program are assumed to be the same as those of the interpreter
// itself.
//
// * all values occupy space, even those of types defined by the spec
// to have zero size, e.g. struct{}.  This can cause asymptotic
// performance degradation.
//
// * os.Exit is implemented using panic, causing deferred functions to
// run.
package interp // import "golang.org/x/tools/go/ssa/interp"

import (
	"fmt"
	"go/token"
	"go/types"
	"log"
	"os"
	"runtime"
	"runtime/debug"
	"slices"
	"strings"
	_ "unsafe"

	"golang.org/x/tools/go/ssa"
	typeparams "verif/gosym/interp/tp"
)

type continuation int

const (
	kNext continuation = iota
	kReturn
	kJump
)

// Mode is a bitmask of options affecting the interpreter.
type Mode uint

const (
	DisableRecover Mode = 1 << iota // Disable recover() in target programs; show interpreter crash instead.
	EnableTracing                   // Print a trace of all instructions as they are interpreted.
)

type methodSet map[string]*ssa.Function

// State shared between all interpreted goroutines.
type interpreter struct {
	osArgs             []value                // the value of os.Args
	prog               *ssa.Program           // the SSA program
	globals            map[*ssa.Global]*value // addresses of global variables (immutable)
	mode               Mode                   // interpreter options
	reflectPackage     *ssa.Package           // the fake reflect package
	errorMethods       methodSet              // the method set of reflect.error, which implements the error interface.
	rtypeMethods       methodSet              // the method set of rtype, which implements the reflect.Type interface.
	runtimeErrorString types.Type             // the runtime.errorString type
	sizes              types.Sizes            // the effective type-sizing function
	goroutines         int32                  // atomically updated

	// symbolic execution state
	eng          *Engine
	sol          *solverProc
	ps           *pathState
	base         *workerBase
	funcs        map[string]string
	modelsHit    map[string]bool
	pendingModel model
	lastBoth     bool
	top          *frame
	panicWhere   string
	panicActive  bool
	depthCalls   int
	frozenLocal  map[*value]struct{}
	frozenMaps   map[*omap]struct{}
	overrides    map[string]value
	wraps        map[string]bool
}

type deferred struct {
	fn    value
	args  []value
	instr *ssa.Defer
	tail  *deferred
}

type frame struct {
	i                *interpreter
	caller           *frame
	fn               *ssa.Function
	block, prevBlock *ssa.BasicBlock
	env              map[ssa.Value]value // dynamic values of SSA variables
	locals           []value
	defers           *deferred
	result           value
	panicking        bool
	panic            interface{}
	phitemps         []value // temporaries for parallel phi assignment
	cur              ssa.Instruction
}

func (fr *frame) get(key ssa.Value) value {
	switch key := key.(type) {
	case nil:
		// Hack; simplifies handling of optional attributes
		// such as ssa.Slice.{Low,High}.
		return nil
	case *ssa.Function, *ssa.Builtin:
		return key
	case *ssa.Const:
		return constValue(key)
	case *ssa.Global:
		return fr.i.global(key)
	}
	if r, ok := fr.env[key]; ok {
		return r
	}
	panic(fmt.Sprintf("get: no value for %T: %v", key, key.Name()))
}

// runDefer runs a deferred call d.
// It always returns normally, but may set or clear fr.panic.
func (fr *frame) runDefer(d *deferred) {
	if fr.i.mode&EnableTracing != 0 {
		fmt.Fprintf(os.Stderr, "%s: invoking deferred function call\n",
			fr.i.prog.Fset.Position(d.instr.Pos()))
	}
	var ok bool
	defer func() {
		if !ok {
			// Deferred call created a new state of panic.
			fr.panicking = true
			fr.panic = recover()
		}
	}()
	call(fr.i, fr, d.instr.Pos(), d.fn, d.args)
	ok = true
}

// runDefers executes fr's deferred function calls in LIFO order.
//
// On entry, fr.panicking indicates a state of panic; if
// true, fr.panic contains the panic value.
//
// On completion, if a deferred call started a panic, or if no
// deferred call recovered from a previous state of panic, then
// runDefers itself panics after the last deferred call has run.
//
// If there was no initial state of panic, or it was recovered from,
// runDefers returns normally.
func (fr *frame) runDefers() {
	for d := fr.defers; d != nil; d = d.tail {
		fr.runDefer(d)
	}
	fr.defers = nil
	if fr.panicking {
		panic(fr.panic) // new panic, or still panicking
	}
}

// lookupMethod returns the method set for type typ, which may be one
// of the interpreter's fake types.
func lookupMethod(i *interpreter, typ types.Type, meth *types.Func) *ssa.Function {
	switch typ {
	case rtypeType:
		return i.rtypeMethods[meth.Id()]
	case errorType:
		return i.errorMethods[meth.Id()]
	}
	return i.prog.LookupMethod(typ, meth.Pkg(), meth.Name())
}

// visitInstr interprets a single ssa.Instruction within the activation
// record frame.  It returns a continuation value indicating where to
// read the next instruction from.
func visitInstr(fr *frame, instr ssa.Instruction) continuation {
	switch instr := instr.(type) {
	case *ssa.DebugRef:
		// no-op

	case *ssa.UnOp:
		fr.env[instr] = unop(fr, instr, fr.get(instr.X))

	case *ssa.BinOp:
		fr.env[instr] = binop(fr, instr.Op, instr.X.Type(), fr.get(instr.X), fr.get(instr.Y))

	case *ssa.Call:
		fn, args := prepareCall(fr, &instr.Call)
		fr.env[instr] = call(fr.i, fr, instr.Pos(), fn, args)

	case *ssa.ChangeInterface:
		fr.env[instr] = fr.get(instr.X)

	case *ssa.ChangeType:
		fr.env[instr] = fr.get(instr.X) // (can't fail)

	case *ssa.Convert:
		fr.env[instr] = conv(fr, instr.Type(), instr.X.Type(), fr.get(instr.X))

	case *ssa.SliceToArrayPointer:
		fr.env[instr] = sliceToArrayPointer(instr.Type(), instr.X.Type(), fr.get(instr.X))

	case *ssa.MakeInterface:
		fr.env[instr] = iface{t: instr.X.Type(), v: fr.get(instr.X)}

	case *ssa.Extract:
		fr.env[instr] = fr.get(instr.Tuple).(tuple)[instr.Index]

	case *ssa.Slice:
		fr.env[instr] = slice(fr, fr.get(instr.X), fr.get(instr.Low), fr.get(instr.High), fr.get(instr.Max))

	case *ssa.Return:
		switch len(instr.Results) {
		case 0:
		case 1:
			fr.result = fr.get(instr.Results[0])
		default:
			var res []value
			for _, r := range instr.Results {
				res = append(res, fr.get(r))
			}
			fr.result = tuple(res)
		}
		fr.block = nil
		return kReturn

	case *ssa.RunDefers:
		fr.runDefers()

	case *ssa.Panic:
		fr.i.panicWhere = fr.i.whereAmI()
		panic(targetPanic{fr.get(instr.X)})

	case *ssa.Send:
		panic(unsupported("channel send"))

	case *ssa.Store:
		if sp, ok := fr.get(instr.Addr).(symElemPtr); ok {
			j := fr.i.concretizeIndex(sp.idx, len(sp.arr), "array")
			fr.i.noteStore(&sp.arr[j])
			sp.arr[j] = fr.get(instr.Val)
			break
		}
		addr := fr.get(instr.Addr).(*value)
		if addr == nil {
			fr.i.throwNilDeref()
		}
		fr.i.noteStore(addr)
		store(typeparams.MustDeref(instr.Addr.Type()), addr, fr.get(instr.Val))

	case *ssa.If:
		succ := 1
		switch c := fr.get(instr.Cond).(type) {
		case bool:
			if c {
				succ = 0
			}
		case sym:
			if fr.i.decide(c.t) {
				succ = 0
			}
		default:
			panic(fmt.Sprintf("If: unexpected condition %T", c))
		}
		fr.prevBlock, fr.block = fr.block, fr.block.Succs[succ]
		return kJump

	case *ssa.Jump:
		fr.prevBlock, fr.block = fr.block, fr.block.Succs[0]
		return kJump

	case *ssa.Defer:
		fn, args := prepareCall(fr, &instr.Call)
		defers := &fr.defers
		if into := fr.get(instr.DeferStack); into != nil {
			defers = into.(**deferred)
		}
		*defers = &deferred{
			fn:    fn,
			args:  args,
			instr: instr,
			tail:  *defers,
		}

	case *ssa.Go:
		panic(unsupported("go statement"))

	case *ssa.MakeChan:
		panic(unsupported("make(chan)"))

	case *ssa.Alloc:
		var addr *value
		if instr.Heap {
			// new
			addr = new(value)
			fr.env[instr] = addr
		} else {
			// local
			addr = fr.env[instr].(*value)
		}
		*addr = zero(typeparams.MustDeref(instr.Type()))

	case *ssa.MakeSlice:
		capv := fr.i.concretize(fr.get(instr.Cap), nil)
		lenv := fr.i.concretize(fr.get(instr.Len), nil)
		if lenv < 0 || capv < lenv || capv > 1<<24 {
			fr.i.throwRuntime("runtime error: makeslice: len out of range")
		}
		slice := make([]value, capv)
		tElt := instr.Type().Underlying().(*types.Slice).Elem()
		for i := range slice {
			slice[i] = zero(tElt)
		}
		fr.env[instr] = slice[:lenv]

	case *ssa.MakeMap:
		fr.env[instr] = makeMap(instr.Type().Underlying().(*types.Map).Key())

	case *ssa.Range:
		fr.env[instr] = rangeIter(fr, fr.get(instr.X), instr.X.Type())

	case *ssa.Next:
		fr.env[instr] = fr.get(instr.Iter).(iter).next()

	case *ssa.FieldAddr:
		p := fr.get(instr.X).(*value)
		if p == nil {
			fr.i.throwNilDeref()
		}
		fr.env[instr] = &(*p).(structure)[instr.Field]

	case *ssa.Field:
		fr.env[instr] = fr.get(instr.X).(structure)[instr.Field]

	case *ssa.IndexAddr:
		x := fr.get(instr.X)
		idx := fr.get(instr.Index)
		switch x := x.(type) {
		case []value:
			fr.env[instr] = &x[fr.i.concretizeIndex(idx, len(x), "slice")]
		case *value: // *array
			if x == nil {
				fr.i.throwNilDeref()
			}
			a := (*x).(array)
			if sidx, ok := idx.(sym); ok && len(a) >= 16 && allConcreteScalars(a) {
				// constant lookup table indexed symbolically: keep the
				// index symbolic, the load becomes an if-then-else chain
				if !fr.i.obligation(indexInRangeTerm(sidx, len(a))) {
					fr.i.throwRuntime(fmt.Sprintf("runtime error: index out of range [symbolic] with length %d", len(a)))
				}
				fr.env[instr] = symElemPtr{arr: a, idx: sidx}
				break
			}
			fr.env[instr] = &a[fr.i.concretizeIndex(idx, len(a), "array")]
		default:
			panic(fmt.Sprintf("unexpected x type in IndexAddr: %T", x))
		}

	case *ssa.Index:
		x := fr.get(instr.X)
		idx := fr.get(instr.Index)

		switch x := x.(type) {
		case array:
			fr.env[instr] = x[fr.i.concretizeIndex(idx, len(x), "array")]
		case string:
			fr.env[instr] = fr.i.indexString(x, idx)
		case symstr:
			fr.env[instr] = x.b[fr.i.concretizeIndex(idx, len(x.b), "string")]
		default:
			panic(fmt.Sprintf("unexpected x type in Index: %T", x))
		}

	case *ssa.Lookup:
		fr.env[instr] = lookup(fr, instr, fr.get(instr.X), fr.get(instr.Index))

	case *ssa.MapUpdate:
		m := fr.get(instr.Map).(*omap)
		if m == nil {
			fr.i.throwRuntime("assignment to entry in nil map")
		}
		fr.i.noteMapWrite(m)
		m.insert(fr.i, fr.get(instr.Key), fr.get(instr.Value))

	case *ssa.TypeAssert:
		fr.env[instr] = typeAssert(fr.i, instr, fr.get(instr.X).(iface))

	case *ssa.MakeClosure:
		var bindings []value
		for _, binding := range instr.Bindings {
			bindings = append(bindings, fr.get(binding))
		}
		fr.env[instr] = &closure{instr.Fn.(*ssa.Function), bindings}

	case *ssa.Phi:
		log.Fatal("unreachable") // phis are processed at block entry

	case *ssa.Select:
		panic(unsupported("select"))

	default:
		panic(fmt.Sprintf("unexpected instruction: %T", instr))
	}

	return kNext
}

// prepareCall determines the function value and argument values for a
// function call in a Call, Go or Defer instruction, performing
// interface method lookup if needed.
func prepareCall(fr *frame, call *ssa.CallCommon) (fn value, args []value) {
	v := fr.get(call.Value)
	if call.Method == nil {
		// Function call.
		fn = v
	} else {
		// Interface method invocation.
		recv := v.(iface)
		if recv.t == nil {
			fr.i.throwNilDeref()
		}
		if f := lookupMethod(fr.i, recv.t, call.Method); f == nil {
			// Unreachable in well-typed programs.
			panic(fmt.Sprintf("method set for dynamic type %v does not contain %s", recv.t, call.Method))
		} else {
			fn = f
		}
		args = append(args, recv.v)
	}
	for _, arg := range call.Args {
		args = append(args, fr.get(arg))
	}
	return
}

// call interprets a call to a function (function, builtin or closure)
// fn with arguments args, returning its result.
// callpos is the position of the callsite.
func call(i *interpreter, caller *frame, callpos token.Pos, fn value, args []value) value {
	switch fn := fn.(type) {
	case *ssa.Function:
		if fn == nil {
			panic("call of nil function") // nil of func type
		}
		return callSSA(i, caller, callpos, fn, args, nil)
	case *closure:
		return callSSA(i, caller, callpos, fn.Fn, args, fn.Env)
	case *ssa.Builtin:
		return callBuiltin(caller, callpos, fn, args)
	}
	panic(fmt.Sprintf("cannot call %T", fn))
}

func loc(fset *token.FileSet, pos token.Pos) string {
	if pos == token.NoPos {
		return ""
	}
	return " at " + fset.Position(pos).String()
}

// callSSA interprets a call to function fn with arguments args,
// and lexical environment env, returning its result.
// callpos is the position of the callsite.
func callSSA(i *interpreter, caller *frame, callpos token.Pos, fn *ssa.Function, args []value, env []value) value {
	fr := &frame{
		i:      i,
		caller: caller, // for panic/recover
		fn:     fn,
	}
	if i.overrides != nil && fn.Parent() == nil {
		if repl, ok := i.overrides[fn.String()]; ok {
			direct := false
			if i.wraps[fn.String()] && caller != nil {
				switch r := repl.(type) {
				case *ssa.Function:
					direct = caller.fn == r
				case *closure:
					direct = caller.fn == r.Fn
				}
			}
			if !direct {
				return call(i, caller, callpos, repl, args)
			}
		}
	}
	if i.isIntrinsic(fn) {
		saved := i.top
		i.top = fr
		r := intrinsics[fn.Name()](fr, args)
		i.top = saved
		return r
	}
	if fn.Parent() == nil {
		name := fn.String()
		if ext := externals[name]; ext != nil {
			saved := i.top
			i.top = fr
			r := ext(fr, args)
			i.top = saved
			if _, declined := r.(notModelled); !declined {
				i.modelsHit[name] = true
				return r
			}
		}
		if fn.Synthetic == "package initializer" && !i.initAllowed(fn) {
			return nil
		}
		if fn.Blocks == nil {
			panic(unsupported("no code for function: " + name))
		}
	}
	if !i.bodyAllowed(fn) {
		panic(unsupported("function outside the executable set: " + fn.String()))
	}

	// generic function body?
	if fn.TypeParams().Len() > 0 && len(fn.TypeArgs()) == 0 {
		panic("interp requires ssa.BuilderMode to include InstantiateGenerics to execute generics")
	}
	i.depthCalls++
	if i.depthCalls > 4000 {
		if i.ps != nil && i.ps.termLimit > 0 {
			// under a termination bound unbounded recursion is the violation
			i.ps.termLimit = 0
			panic(pathAbort{kind: abortAssertFail, msg: i.ps.termMsg})
		}
		panic(pathAbort{kind: abortBudget, msg: "call depth exceeds 4000"})
	}
	saved := i.top
	i.top = fr
	defer func() {
		i.top = saved
		i.depthCalls--
	}()

	fr.env = make(map[ssa.Value]value)
	fr.block = fn.Blocks[0]
	fr.locals = make([]value, len(fn.Locals))
	for i, l := range fn.Locals {
		fr.locals[i] = zero(typeparams.MustDeref(l.Type()))
		fr.env[l] = &fr.locals[i]
	}
	for i, p := range fn.Params {
		fr.env[p] = args[i]
	}
	for i, fv := range fn.FreeVars {
		fr.env[fv] = env[i]
	}
	for fr.block != nil {
		runFrame(fr)
	}
	return fr.result
}

// runFrame executes SSA instructions starting at fr.block and
// continuing until a return, a panic, or a recovered panic.
//
// After a panic, runFrame panics.
//
// After a normal return, fr.result contains the result of the call
// and fr.block is nil.
//
// After a recovered panic in a function with NRPs, fr.result is
// undefined and fr.block contains the block at which to resume
// control.
func runFrame(fr *frame) {
	defer func() {
		if fr.block == nil {
			return // normal return
		}
		r := recover()
		switch r.(type) {
		case targetPanic:
			// the target program is panicking: run its deferred calls
			if !fr.i.panicActive {
				fr.i.panicActive = true
				if fr.i.panicWhere == "" {
					fr.i.panicWhere = fr.i.whereAmI()
				}
			}
		case pathAbort:
			// engine-level end of path: invisible to the target
			pa := r.(pathAbort)
			if pa.where == "" {
				pa.where = fr.i.whereAmI()
			}
			panic(pa)
		default:
			// A Go runtime error or explicit panic inside the engine: an
			// executor bug or unsupported shape, never a target panic.
			if err, ok := r.(runtime.Error); ok {
				panic(pathAbort{kind: abortInternal, msg: "engine: " + err.Error() + " in " + fr.i.whereAmI() + "\n" + string(debugStack())})
			}
			panic(pathAbort{kind: abortInternal, msg: fmt.Sprintf("engine: %v in %s", r, fr.i.whereAmI())})
		}
		fr.panicking = true
		fr.panic = r
		fr.i.top = fr
		fr.runDefers()
		fr.block = fr.fn.Recover
	}()

	ps := fr.i.ps
	max := fr.i.eng.cfg.MaxSteps
	for {
		nonPhis := executePhis(fr)
		for _, instr := range nonPhis {
			ps.steps++
			if ps.steps&0x3fff == 0 && fr.i.eng.pastDeadline() {
				panic(pathAbort{kind: abortStopped, msg: "deadline"})
			}
			if ps.termLimit > 0 && ps.steps > ps.termLimit {
				ps.termLimit = 0
				panic(pathAbort{kind: abortAssertFail, msg: ps.termMsg})
			}
			if ps.steps > max {
				panic(pathAbort{kind: abortBudget, msg: fmt.Sprintf("instruction budget (%d) exhausted", max)})
			}
			fr.cur = instr
			if fr.i.mode&EnableTracing != 0 {
				if v, ok := instr.(ssa.Value); ok {
					fmt.Fprintln(os.Stderr, "\t", fr.fn.Name(), v.Name(), "=", instr)
				} else {
					fmt.Fprintln(os.Stderr, "\t", fr.fn.Name(), instr)
				}
			}
			if visitInstr(fr, instr) == kReturn {
				return
			}
			// Inv: kNext (continue) or kJump (last instr)
		}
	}
}

// executePhis executes the phi-nodes at the start of the current
// block and returns the non-phi instructions.
func executePhis(fr *frame) []ssa.Instruction {
	firstNonPhi := -1
	for i, instr := range fr.block.Instrs {
		if _, ok := instr.(*ssa.Phi); !ok {
			firstNonPhi = i
			break
		}
	}
	// Inv: 0 <= firstNonPhi; every block contains a non-phi.

	nonPhis := fr.block.Instrs[firstNonPhi:]
	if firstNonPhi > 0 {
		phis := fr.block.Instrs[:firstNonPhi]
		// Execute parallel assignment of phis.
		//
		// See "the swap problem" in Briggs et al's "Practical Improvements
		// to the Construction and Destruction of SSA Form" for discussion.
		predIndex := slices.Index(fr.block.Preds, fr.prevBlock)
		fr.phitemps = fr.phitemps[:0]
		for _, phi := range phis {
			phi := phi.(*ssa.Phi)
			if fr.i.mode&EnableTracing != 0 {
				fmt.Fprintln(os.Stderr, "\t", phi.Name(), "=", phi)
			}
			fr.phitemps = append(fr.phitemps, fr.get(phi.Edges[predIndex]))
		}
		for i, phi := range phis {
			fr.env[phi.(*ssa.Phi)] = fr.phitemps[i]
		}
	}
	return nonPhis
}

// doRecover implements the recover() built-in.
func doRecover(caller *frame) value {
	// recover() must be exactly one level beneath the deferred
	// function (two levels beneath the panicking function) to
	// have any effect.  Thus we ignore both "defer recover()" and
	// "defer f() -> g() -> recover()".
	if caller != nil && !caller.panicking &&
		caller.caller != nil && caller.caller.panicking {
		caller.caller.panicking = false
		p := caller.caller.panic
		caller.caller.panic = nil
		switch p := p.(type) {
		case targetPanic:
			caller.i.panicActive = false
			caller.i.panicWhere = ""
			return p.v
		default:
			panic(fmt.Sprintf("unexpected panic type %T in target call to recover()", p))
		}
	}
	return iface{}
}

// throwRuntime raises a Go run-time panic (runtime.Error) in the target.
func (i *interpreter) throwRuntime(msg string) {
	i.panicWhere = i.whereAmI()
	panic(targetPanic{iface{i.runtimeErrorString, msg}})
}

func (i *interpreter) throwNilDeref() {
	i.throwRuntime("runtime error: invalid memory address or nil pointer dereference")
}

// whereAmI describes the innermost repo-level source position.
func (i *interpreter) whereAmI() string {
	var parts []string
	for fr := i.top; fr != nil && len(parts) < 6; fr = fr.caller {
		pos := token.NoPos
		if fr.cur != nil {
			pos = fr.cur.Pos()
		}
		p := i.prog.Fset.Position(pos)
		name := fr.fn.String()
		if p.IsValid() {
			f := p.Filename
			if idx := strings.LastIndex(f, "/"); idx >= 0 {
				f = f[idx+1:]
			}
			parts = append(parts, fmt.Sprintf("%s (%s:%d)", name, f, p.Line))
		} else {
			parts = append(parts, name)
		}
	}
	return strings.Join(parts, " <- ")
}

// panicMessage renders the value of an uncaught target panic.
func (i *interpreter) panicMessage(v value) string {
	if itf, ok := v.(iface); ok {
		if itf.t == nil {
			return "panic(nil)"
		}
		if s, ok := itf.v.(string); ok {
			return s
		}
		// error or Stringer: try calling Error()
		if r := i.tryStringMethod(itf, "Error"); r != nil {
			return fmt.Sprint(*r)
		}
		return toString(itf.v)
	}
	return toString(v)
}

func (i *interpreter) tryStringMethod(itf iface, name string) (res *string) {
	defer func() {
		if recover() != nil {
			res = nil
		}
	}()
	mset := i.prog.MethodSets.MethodSet(itf.t)
	for j := 0; j < mset.Len(); j++ {
		sel := mset.At(j)
		if sel.Obj().Name() != name {
			continue
		}
		sig := sel.Type().(*types.Signature)
		if sig.Params().Len() != 0 || sig.Results().Len() != 1 {
			return nil
		}
		fn := i.prog.MethodValue(sel)
		if fn == nil {
			return nil
		}
		out := call(i, nil, token.NoPos, fn, []value{itf.v})
		switch s := out.(type) {
		case string:
			return &s
		case symstr:
			str := fmt.Sprintf("<symbolic string len %d>", len(s.b))
			return &str
		}
	}
	return nil
}

// workerBase is the per-worker state shared by all paths: initialised
// package-level variables.  Paths must not mutate it (checked by the store
// trap when enabled).
type workerBase struct {
	globals     map[*ssa.Global]*value
	inited      bool
	memo        map[string]value
	frozenCells map[*value]struct{}
	frozenMaps  map[*omap]struct{}
}

func newInterpreter(e *Engine, sol *solverProc, ps *pathState, base *workerBase, funcs map[string]string, models map[string]bool) *interpreter {
	i := &interpreter{
		prog:      e.prog,
		globals:   base.globals,
		sizes:     e.sizes,
		eng:       e,
		sol:       sol,
		ps:        ps,
		base:      base,
		funcs:     funcs,
		modelsHit: models,
	}
	if e.cfg.Trace {
		i.mode |= EnableTracing
	}
	runtimePkg := i.prog.ImportedPackage("runtime")
	if runtimePkg == nil {
		panic("ssa.Program doesn't include runtime package")
	}
	i.runtimeErrorString = runtimePkg.Type("errorString").Object().Type()
	i.rtypeMethods = e.rtypeMethods
	i.errorMethods = e.errorMethods
	i.reflectPackage = e.reflectPackage
	return i
}

func (i *interpreter) global(g *ssa.Global) *value {
	if r, ok := i.globals[g]; ok {
		return r
	}
	cell := zero(typeparams.MustDeref(g.Type()))
	i.globals[g] = &cell
	return &cell
}

// initPackages runs the package initialisers (once per worker).
func (i *interpreter) initPackages() {
	if i.base.inited {
		return
	}
	i.base.inited = true
	call(i, nil, token.NoPos, i.eng.pkg.Func("init"), nil)
}

// initAllowed reports whether the initialiser of fn's package is executed.
func (i *interpreter) initAllowed(fn *ssa.Function) bool {
	if fn.Pkg == nil {
		return false
	}
	return i.eng.pkgExecutable(fn.Pkg.Pkg.Path())
}

// bodyAllowed reports whether the SSA body of fn may be executed: its
// package is initialised by the engine, or it needs no package state.
func (i *interpreter) bodyAllowed(fn *ssa.Function) bool {
	pkg := fn.Pkg
	if pkg == nil {
		if o := fn.Origin(); o != nil {
			pkg = o.Pkg
		}
	}
	if pkg == nil {
		// synthetic wrappers, bound methods, instantiations without a package
		if fn.Object() != nil && fn.Object().Pkg() != nil {
			return i.eng.pkgExecutable(fn.Object().Pkg().Path()) || i.eng.funcAllowed(fn)
		}
		return true
	}
	path := pkg.Pkg.Path()
	ok := i.eng.pkgExecutable(path) || i.eng.funcAllowed(fn)
	if ok {
		if _, seen := i.funcs[fn.String()]; !seen {
			i.funcs[fn.String()] = i.eng.classify(path)
		}
	}
	return ok
}

func debugStack() []byte { return debug.Stack() }
