// Package tp holds the one helper the vendored interpreter needs from
// golang.org/x/tools/internal/typeparams.
package tp

import (
	"fmt"
	"go/types"
)

// MustDeref returns the type of the variable pointed to by t.
func MustDeref(t types.Type) types.Type {
	if ptr, ok := t.Underlying().(*types.Pointer); ok {
		return ptr.Elem()
	}
	panic(fmt.Sprintf("%v is not a pointer", t))
}
