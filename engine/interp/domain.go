package interp

// Byte-domain fast path.  Most decisions in byte-oriented code (lexers,
// unquoting, UTF-8 decoding) are about a single symbolic byte compared with
// constants.  For every symbolic variable of width <= 8 the path keeps the
// exact set of values allowed by the *unary* constraints asserted so far.  A
// decision whose condition mentions only that variable is then settled by
// evaluating the condition on the (at most 256) remaining values:
//
//   - no value satisfies one side  → that side is infeasible (sound even when
//     the variable also occurs in non-unary constraints, because the set
//     over-approximates the feasible values);
//   - both sides have values and the variable occurs in unary constraints
//     only → both sides are feasible, with witnesses obtained by patching the
//     current model.
//
// Everything else goes to the SMT solver.  A sample of fast-path verdicts is
// cross-checked against the solver (Config.CrossCheckEvery).

type byteSet [4]uint64

func (s *byteSet) has(x int) bool { return s[x>>6]&(1<<(uint(x)&63)) != 0 }
func (s *byteSet) set(x int)      { s[x>>6] |= 1 << (uint(x) & 63) }
func (s *byteSet) empty() bool    { return s[0]|s[1]|s[2]|s[3] == 0 }
func (s *byteSet) first() int {
	for x := 0; x < 256; x++ {
		if s.has(x) {
			return x
		}
	}
	return -1
}

func fullByteSet(w uint8) byteSet {
	var s byteSet
	n := 1 << w
	for x := 0; x < n; x++ {
		s.set(x)
	}
	return s
}

// termVars classifies the variables of t: (nil,0) none, (v,1) exactly one,
// (nil,2) several.
func termVars(t *term) (*term, int8) {
	if t == nil {
		return nil, 0
	}
	if t.nv != 0 {
		if t.nv == 1 {
			return t.v1, 1
		}
		if t.nv == 3 {
			return nil, 0
		}
		return nil, 2
	}
	var v *term
	var n int8
	switch t.op {
	case opConst:
		n = 0
	case opVar:
		v, n = t, 1
	default:
		for _, c := range [3]*term{t.a, t.b, t.c} {
			cv, cn := termVars(c)
			switch {
			case cn == 2:
				n = 2
			case cn == 1 && n == 0:
				v, n = cv, 1
			case cn == 1 && n == 1 && cv.name != v.name:
				n = 2
			}
			if n == 2 {
				v = nil
				break
			}
		}
	}
	switch n {
	case 0:
		t.nv = 3
	case 1:
		t.nv, t.v1 = 1, v
	default:
		t.nv = 2
	}
	return v, n
}

// singleSmallVar returns the only variable of c when it has width <= 8.
func singleSmallVar(c *term) (*term, bool) {
	v, n := termVars(c)
	if n == 1 && v.w <= 8 && v.w > 0 {
		return v, true
	}
	return nil, false
}

func (ps *pathState) domainOf(v *term) *byteSet {
	if ps.dom == nil {
		ps.dom = map[string]*byteSet{}
	}
	d, ok := ps.dom[v.name]
	if !ok {
		s := fullByteSet(v.w)
		d = &s
		ps.dom[v.name] = d
	}
	return d
}

// splitDomain partitions the domain of v by the truth value of c.
func (ps *pathState) splitDomain(v *term, c *term) (T, F byteSet) {
	d := ps.domainOf(v)
	m := model{}
	for x := 0; x < 1<<v.w; x++ {
		if !d.has(x) {
			continue
		}
		m[v.name] = uint64(x)
		if c.eval(m, map[*term]uint64{}) != 0 {
			T.set(x)
		} else {
			F.set(x)
		}
	}
	return
}

// noteAsserted updates the byte domains for an asserted constraint.
func (ps *pathState) noteAsserted(c *term) {
	if v, ok := singleSmallVar(c); ok {
		T, _ := ps.splitDomain(v, c)
		*ps.domainOf(v) = T
		return
	}
	ps.entangle(c)
}

func (ps *pathState) entangle(t *term) {
	if t == nil || t.op == opConst {
		return
	}
	if _, n := termVars(t); n == 0 {
		return
	}
	if t.op == opVar {
		if t.w <= 8 && t.w > 0 {
			if ps.entangled == nil {
				ps.entangled = map[string]bool{}
			}
			ps.entangled[t.name] = true
		}
		return
	}
	ps.entangle(t.a)
	ps.entangle(t.b)
	ps.entangle(t.c)
}

func patchModel(m model, name string, val uint64) model {
	out := make(model, len(m)+1)
	for k, v := range m {
		out[k] = v
	}
	out[name] = val
	return out
}
