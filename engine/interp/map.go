package interp

// Insertion-ordered maps whose keys may be symbolic.
//
// Iteration order is insertion order (deterministic re-execution is what
// path prefixes rely on); Go leaves the order unspecified, so harnesses must
// not depend on it and the evidence lists this as an assumption.

import (
	"go/types"
)

type hashable interface {
	hash(t types.Type) int
	eq(t types.Type, x interface{}) bool
}

type oentry struct {
	key, val value
	live     bool
}

type omap struct {
	keyType types.Type
	entries []*oentry
	idx     map[int][]int // hash of concrete key → entry indices
	n       int
	symKeys int
}

func makeMap(kt types.Type) value {
	return &omap{keyType: kt, idx: map[int][]int{}}
}

func (m *omap) len() int {
	if m == nil {
		return 0
	}
	return m.n
}

// find returns the entry for key, forking on symbolic key equalities.
func (m *omap) find(i *interpreter, key value) *oentry {
	if m == nil {
		return nil
	}
	if m.symKeys == 0 && !hasSym(key) {
		h := hash(m.keyType, m.keyType, key)
		for _, j := range m.idx[h] {
			e := m.entries[j]
			if e.live && equals(m.keyType, key, e.key) {
				return e
			}
		}
		return nil
	}
	for _, e := range m.entries {
		if !e.live {
			continue
		}
		c := equalsTerm(m.keyType, key, e.key)
		if c.isFalse() {
			continue
		}
		if i.decide(c) {
			return e
		}
	}
	return nil
}

// lookup returns (value, ok).  With a symbolic key and scalar values the
// result is an if-then-else chain rather than a fork.
func (m *omap) lookup(i *interpreter, key value, tElem types.Type) (value, value) {
	if m == nil {
		return zero(tElem), false
	}
	if m.symKeys == 0 && !hasSym(key) {
		if e := m.find(i, key); e != nil {
			return e.val, true
		}
		return zero(tElem), false
	}
	if k, ok := basicKindOfType(tElem); ok && k != types.String && k != types.Float32 && k != types.Float64 &&
		k != types.Complex64 && k != types.Complex128 && k != types.UnsafePointer {
		res := termOf(zero(tElem))
		found := termFalse
		// Later entries never shadow earlier ones (keys are distinct), so
		// the chain order is irrelevant.
		for j := len(m.entries) - 1; j >= 0; j-- {
			e := m.entries[j]
			if !e.live {
				continue
			}
			c := equalsTerm(m.keyType, key, e.key)
			if c.isFalse() {
				continue
			}
			res = mkIte(c, termOf(e.val), res)
			found = mkOr(c, found)
		}
		return fromTerm(res, k), fromTerm(found, types.Bool)
	}
	if e := m.find(i, key); e != nil {
		return e.val, true
	}
	return zero(tElem), false
}

func (m *omap) insert(i *interpreter, key, val value) {
	if e := m.find(i, key); e != nil {
		e.val = val
		return
	}
	e := &oentry{key: key, val: val, live: true}
	m.entries = append(m.entries, e)
	m.n++
	if hasSym(key) {
		m.symKeys++
	} else {
		h := hash(m.keyType, m.keyType, key)
		m.idx[h] = append(m.idx[h], len(m.entries)-1)
	}
}

func (m *omap) delete(i *interpreter, key value) {
	if m == nil {
		return
	}
	if e := m.find(i, key); e != nil {
		e.live = false
		m.n--
		if hasSym(e.key) {
			m.symKeys--
		}
	}
}

type omapIter struct {
	m   *omap
	pos int
}

func (m *omap) iter() iter { return &omapIter{m: m} }

func (it *omapIter) next() tuple {
	if it.m != nil {
		for it.pos < len(it.m.entries) {
			e := it.m.entries[it.pos]
			it.pos++
			if e.live {
				return tuple{true, e.key, e.val}
			}
		}
	}
	return tuple{false, nil, nil}
}
