package interp

// The exploration driver: workers, work list, per-path execution, results.

import (
	"fmt"
	"go/token"
	"go/types"
	"os"
	"runtime"
	"runtime/debug"
	"strings"
	"sync"
	"sync/atomic"
	"time"

	"golang.org/x/tools/go/ssa"
)

// Config bounds one harness run.
type Config struct {
	Workers         int
	Solver          SolverSpec
	SolverTimeout   int   // ms per query
	MaxSteps        int64 // instruction budget per path
	MaxPaths        int64 // stop after this many finished paths (0 = unlimited)
	MaxConcretize   int   // fan-out bound for concretisation
	MaxViolations   int   // stop collecting after this many violating paths
	SamplePaths     int   // finished ok-paths to keep with model + observations
	KeepPC          bool
	Deadline        time.Time
	Trace           bool
	SolverLog       string // file to write the SMT transcript of worker 0 to
	InitWhitelist   []string
	RepoPrefix      string
	NoFastPath      bool // disable the byte-domain fast path (every decision goes to the solver)
	CrossCheckEvery int  // cross-check every n-th fast-path verdict with the solver (0 = never)
}

// PathRecord is what is kept of a finished path.
type PathRecord struct {
	Harness  string        `json:"harness"`
	Outcome  string        `json:"outcome"` // ok | assert | panic | unsupported | budget | solver | internal
	Msg      string        `json:"msg,omitempty"`
	Where    string        `json:"where,omitempty"`
	Trail    string        `json:"trail"`
	Inputs   []ReplayValue `json:"inputs"`
	Observed []string      `json:"observed"`
	Reached  []string      `json:"reached,omitempty"`
	PC       []string      `json:"pc,omitempty"`
	Steps    int64         `json:"steps"`
}

// Result summarises the exploration of one harness.
type Result struct {
	Harness        string            `json:"harness"`
	Paths          int64             `json:"paths"`
	OkPaths        int64             `json:"ok_paths"`
	Infeasible     int64             `json:"infeasible_paths"`
	Violations     []PathRecord      `json:"violations"`
	ViolatingPaths int64             `json:"violating_paths"`
	Inconclusive   []PathRecord      `json:"inconclusive"`
	Samples        []PathRecord      `json:"samples"`
	Reached        map[string]int64  `json:"reached"`
	Queries        int               `json:"queries"`
	Sat            int               `json:"sat"`
	Unsat          int               `json:"unsat"`
	Unknown        int               `json:"unknown"`
	SolverErrors   []string          `json:"solver_errors,omitempty"`
	SolverSeconds  float64           `json:"solver_s"`
	AssertsHeld    int64             `json:"asserts_held"` // vAssert evaluations on completed paths
	Obligations    int64             `json:"obligations"`
	Discharged     int64             `json:"discharged"`
	Decisions      int64             `json:"decisions"`
	FastPath       int64             `json:"fast_path_decisions"` // settled by the byte-domain fast path
	Steps          int64             `json:"steps"`
	WallSeconds    float64           `json:"wall_s"`
	Exhaustive     bool              `json:"exhaustive"`
	StopReason     string            `json:"stop_reason,omitempty"`
	Functions      map[string]string `json:"functions"` // SSA functions executed → class (repo/std/model)
	Models         []string          `json:"models"`    // models/stubs hit
	MaxTrail       int               `json:"max_trail"`
}

// Engine explores one harness function.
type Engine struct {
	prog    *ssa.Program
	pkg     *ssa.Package
	harness *ssa.Function
	cfg     Config
	sizes   types.Sizes

	mu       sync.Mutex
	cond     *sync.Cond
	work     []workItem
	idle     int
	stopFlag int32
	stopWhy  string

	repoPrefix     string
	execPkgs       map[string]bool
	frozen         map[*value]struct{} // unused at engine level (see interpreter.frozenLocal)
	rtypeMethods   methodSet
	errorMethods   methodSet
	reflectPackage *ssa.Package

	res        Result
	violKeys   map[string]int
	sampleKeys map[string]int
	funcs      map[string]string
	models     map[string]bool
	oblN       int64
	oblOK      int64
	decisions  int64
	steps      int64
}

func (e *Engine) stopped() bool { return atomic.LoadInt32(&e.stopFlag) != 0 }

func (e *Engine) pastDeadline() bool {
	if e.stopped() {
		return true
	}
	if !e.cfg.Deadline.IsZero() && time.Now().After(e.cfg.Deadline) {
		e.stop("deadline")
		return true
	}
	return false
}

func (e *Engine) stop(why string) {
	e.mu.Lock()
	if e.stopFlag == 0 {
		e.stopWhy = why
		atomic.StoreInt32(&e.stopFlag, 1)
	}
	e.cond.Broadcast()
	e.mu.Unlock()
}

func (e *Engine) push(w workItem) {
	e.mu.Lock()
	e.work = append(e.work, w)
	e.cond.Signal()
	e.mu.Unlock()
}

func (e *Engine) countObligation(discharged bool) {
	atomic.AddInt64(&e.oblN, 1)
	if discharged {
		atomic.AddInt64(&e.oblOK, 1)
	}
}

// pop blocks until work is available or everything is done.
func (e *Engine) pop() (workItem, bool) {
	e.mu.Lock()
	defer e.mu.Unlock()
	for {
		if e.stopFlag != 0 {
			return workItem{}, false
		}
		if n := len(e.work); n > 0 {
			w := e.work[n-1]
			e.work = e.work[:n-1]
			return w, true
		}
		e.idle++
		if e.idle == e.cfg.Workers {
			e.cond.Broadcast()
			return workItem{}, false
		}
		e.cond.Wait()
		if e.idle == e.cfg.Workers {
			return workItem{}, false
		}
		e.idle--
	}
}

// Explore runs harness fn of pkg under cfg.
func Explore(pkg *ssa.Package, fn *ssa.Function, sizes types.Sizes, cfg Config) *Result {
	if cfg.Workers <= 0 {
		cfg.Workers = runtime.NumCPU()
	}
	if cfg.MaxSteps == 0 {
		cfg.MaxSteps = 5_000_000
	}
	if cfg.MaxConcretize == 0 {
		cfg.MaxConcretize = 64
	}
	if cfg.SolverTimeout == 0 {
		cfg.SolverTimeout = 60000
	}
	if cfg.MaxViolations == 0 {
		cfg.MaxViolations = 20
	}
	e := &Engine{prog: pkg.Prog, pkg: pkg, harness: fn, cfg: cfg, sizes: sizes,
		funcs: map[string]string{}, models: map[string]bool{}}
	e.cond = sync.NewCond(&e.mu)
	e.repoPrefix = cfg.RepoPrefix
	if e.repoPrefix == "" {
		e.repoPrefix = "github.com/alecthomas/participle/v2"
	}
	e.execPkgs = map[string]bool{}
	for _, p := range cfg.InitWhitelist {
		e.execPkgs[p] = true
	}
	rs := initReflect(pkg.Prog)
	e.rtypeMethods, e.errorMethods, e.reflectPackage = rs.rtypeMethods, rs.errorMethods, rs.pkg
	e.res.Harness = fn.Name()
	e.res.Reached = map[string]int64{}
	e.work = []workItem{{prefix: nil}}
	start := time.Now()
	var wg sync.WaitGroup
	for w := 0; w < cfg.Workers; w++ {
		wg.Add(1)
		go func(id int) {
			defer wg.Done()
			e.worker(id)
		}(w)
	}
	wg.Wait()
	e.res.WallSeconds = time.Since(start).Seconds()
	e.res.Exhaustive = e.stopFlag == 0 && len(e.res.Inconclusive) == 0
	e.res.StopReason = e.stopWhy
	e.res.Obligations = e.oblN
	e.res.Discharged = e.oblOK
	e.res.Decisions = e.decisions
	e.res.Steps = e.steps
	e.res.Functions = e.funcs
	for m := range e.models {
		e.res.Models = append(e.res.Models, m)
	}
	sortStrings(e.res.Models)
	return &e.res
}

func (e *Engine) worker(id int) {
	sol, err := startSolver(e.cfg.Solver, e.cfg.SolverTimeout)
	if err != nil {
		e.mu.Lock()
		e.res.SolverErrors = append(e.res.SolverErrors, "start: "+err.Error())
		e.mu.Unlock()
		e.stop("solver failed to start")
		return
	}
	if id == 0 && e.cfg.SolverLog != "" {
		if f, err := os.Create(e.cfg.SolverLog); err == nil {
			sol.log = f
			defer f.Close()
		}
	}
	defer func() {
		e.mu.Lock()
		e.res.Queries += sol.queries
		e.res.Sat += sol.satN
		e.res.Unsat += sol.unsatN
		e.res.Unknown += sol.unkN
		e.res.SolverErrors = append(e.res.SolverErrors, sol.errors...)
		e.res.SolverSeconds += sol.elapsed.Seconds()
		e.mu.Unlock()
		sol.close()
	}()
	localFuncs := map[string]string{}
	localModels := map[string]bool{}
	base := &workerBase{globals: map[*ssa.Global]*value{}}
	defer func() {
		e.mu.Lock()
		for k, v := range localFuncs {
			e.funcs[k] = v
		}
		for k := range localModels {
			e.models[k] = true
		}
		e.mu.Unlock()
	}()
	for {
		w, ok := e.pop()
		if !ok {
			return
		}
		if !e.cfg.Deadline.IsZero() && time.Now().After(e.cfg.Deadline) {
			e.stop("deadline")
			return
		}
		rec, ps := e.runPath(sol, w, base, localFuncs, localModels)
		e.finish(rec, ps)
	}
}

func (e *Engine) finish(rec PathRecord, ps *pathState) {
	e.mu.Lock()
	defer e.mu.Unlock()
	e.res.Paths++
	atomic.AddInt64(&e.decisions, int64(ps.nDecide))
	atomic.AddInt64(&e.steps, ps.steps)
	e.res.FastPath += ps.fastPath
	if rec.Outcome == "ok" {
		e.res.AssertsHeld += ps.asserts
	}
	if len(rec.Trail) > e.res.MaxTrail {
		e.res.MaxTrail = len(rec.Trail)
	}
	for _, r := range ps.reach {
		e.res.Reached[r]++
	}
	switch rec.Outcome {
	case "ok":
		e.res.OkPaths++
		// stratified sampling: a few paths per distinct set of reached labels
		key := strings.Join(ps.reach, ",")
		if e.sampleKeys == nil {
			e.sampleKeys = map[string]int{}
		}
		perKey := e.cfg.SamplePaths / 3
		if perKey < 2 {
			perKey = 2
		}
		if len(e.res.Samples) < e.cfg.SamplePaths && e.sampleKeys[key] < perKey {
			e.sampleKeys[key]++
			e.res.Samples = append(e.res.Samples, rec)
		}
	case "infeasible":
		e.res.Infeasible++
	case "stopped":
	case "assert", "panic":
		e.res.ViolatingPaths++
		key := rec.Outcome + "|" + rec.Msg + "|" + firstFrame(rec.Where)
		if e.violKeys == nil {
			e.violKeys = map[string]int{}
		}
		e.violKeys[key]++
		if e.violKeys[key] <= 3 && len(e.violKeys) <= 200 && len(e.res.Violations) < e.cfg.MaxViolations*10 {
			e.res.Violations = append(e.res.Violations, rec)
		}
	default:
		if len(e.res.Inconclusive) < 50 {
			e.res.Inconclusive = append(e.res.Inconclusive, rec)
		} else if e.stopFlag == 0 {
			e.stopWhy = "too many inconclusive paths"
			atomic.StoreInt32(&e.stopFlag, 1)
			e.cond.Broadcast()
		}
	}
	if e.cfg.MaxPaths > 0 && e.res.Paths >= e.cfg.MaxPaths && e.stopFlag == 0 {
		e.stopWhy = "max paths"
		atomic.StoreInt32(&e.stopFlag, 1)
		e.cond.Broadcast()
	}
}

// runPath executes the harness once along w.prefix and beyond.
func (e *Engine) runPath(sol *solverProc, w workItem, base *workerBase, funcs map[string]string, models map[string]bool) (rec PathRecord, ps *pathState) {
	ps = &pathState{prefix: append([]dec(nil), w.prefix...), model: nil}
	// The model attached to the work item satisfies the whole prefix; it
	// becomes valid once the prefix has been replayed.
	pendingModel := w.model
	i := newInterpreter(e, sol, ps, base, funcs, models)
	i.pendingModel = pendingModel
	rec.Harness = e.harness.Name()
	sol.send("(push 1)\n")
	defer func() {
		sol.send("(pop 1)\n")
	}()
	outcome, msg, where := "ok", "", ""
	func() {
		defer func() {
			r := recover()
			if r == nil {
				return
			}
			switch p := r.(type) {
			case pathAbort:
				outcome, msg = p.kind.String(), p.msg
				where = p.where
			case targetPanic:
				outcome = "panic"
				msg = i.panicMessage(p.v)
				where = i.panicWhere
			default:
				outcome = "internal"
				msg = fmt.Sprintf("%v", r)
				if e.cfg.Trace {
					msg += "\n" + string(debug.Stack())
				}
				where = i.whereAmI()
			}
		}()
		i.initPackages()
		call(i, nil, token.NoPos, e.harness, nil)
	}()
	rec.Outcome, rec.Msg, rec.Where = outcome, msg, where
	rec.Steps = ps.steps
	var sb strings.Builder
	for _, d := range ps.trail {
		if d.pick {
			if d.b {
				fmt.Fprintf(&sb, "[=%d]", d.c)
			} else {
				fmt.Fprintf(&sb, "[!%d]", d.c)
			}
		} else if d.b {
			sb.WriteByte('1')
		} else {
			sb.WriteByte('0')
		}
	}
	rec.Trail = sb.String()
	rec.Reached = ps.reach
	rec.PC = ps.pcStr
	// A witness for this path.
	needModel := outcome == "assert" || outcome == "panic" || outcome == "ok" || outcome == "budget" || outcome == "unsupported" || outcome == "internal"
	if needModel {
		m := ps.model
		if m == nil && ps.depth >= len(ps.prefix) {
			if res, mm := i.query(termTrue); res == resSat {
				m = mm
			}
		}
		if m == nil {
			m = model{}
		}
		rec.Inputs = ps.modelInputs(m)
		memo := map[*term]uint64{}
		for _, o := range ps.obs {
			parts := []string{o.tag}
			for _, v := range o.vals {
				parts = append(parts, renderValue(v, m, memo))
			}
			rec.Observed = append(rec.Observed, strings.Join(parts, " "))
		}
	}
	return rec, ps
}

func sortStrings(s []string) {
	for i := 1; i < len(s); i++ {
		for j := i; j > 0 && s[j] < s[j-1]; j-- {
			s[j], s[j-1] = s[j-1], s[j]
		}
	}
}

// freezeReachable marks every cell reachable from v as frozen: a later
// store into one of them ends the path as an assertion failure.  Used for
// the frame-condition checks (shared parser / definition objects).
func (i *interpreter) freezeReachable(v value) {
	i.freezeInto(v, &i.frozenLocal, &i.frozenMaps)
}

func (i *interpreter) freezeInto(v value, cells *map[*value]struct{}, maps *map[*omap]struct{}) {
	if *cells == nil {
		*cells = map[*value]struct{}{}
	}
	if *maps == nil {
		*maps = map[*omap]struct{}{}
	}
	seen := *cells
	var walk func(v value)
	walk = func(v value) {
		switch v := v.(type) {
		case *value:
			if v == nil {
				return
			}
			if _, ok := seen[v]; ok {
				return
			}
			seen[v] = struct{}{}
			walk(*v)
		case structure:
			for j := range v {
				seen[&v[j]] = struct{}{}
				walk(v[j])
			}
		case array:
			for j := range v {
				seen[&v[j]] = struct{}{}
				walk(v[j])
			}
		case []value:
			full := v[:cap(v)]
			for j := range full {
				if _, ok := seen[&full[j]]; ok {
					continue
				}
				seen[&full[j]] = struct{}{}
				walk(full[j])
			}
		case iface:
			walk(v.v)
		case *omap:
			if v == nil {
				return
			}
			if _, ok := (*maps)[v]; ok {
				return
			}
			(*maps)[v] = struct{}{}
			for _, en := range v.entries {
				walk(en.key)
				walk(en.val)
			}
		case *closure:
			for _, b := range v.Env {
				walk(b)
			}
		case tuple:
			for _, b := range v {
				walk(b)
			}
		}
	}
	walk(v)
}

func firstFrame(where string) string {
	if i := strings.Index(where, " <- "); i >= 0 {
		// skip the intrinsic frame itself
		rest := where[i+4:]
		if strings.Contains(where[:i], ".vAssert") || strings.Contains(where[:i], ".vUnreachable") {
			if j := strings.Index(rest, " <- "); j >= 0 {
				return rest[:j]
			}
			return rest
		}
		return where[:i]
	}
	return where
}
