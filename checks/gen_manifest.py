#!/usr/bin/env python3
"""Regenerates /verif/MANIFEST.json from checks/props.py."""
import json, os, sys
sys.path.insert(0, os.path.dirname(os.path.abspath(__file__)))
import props

VERIF = os.path.dirname(os.path.dirname(os.path.abspath(__file__)))
all_ids = [json.loads(l)["id"] for l in open(os.path.join(VERIF, "properties.jsonl"))]
checks = []
for pid in all_ids:
    if pid not in props.PROPS:
        continue
    P = props.PROPS[pid]
    checks.append(dict(
        property_id=pid,
        quick_cmd="./check %s --tier quick" % pid,
        thorough_cmd="./check %s --tier thorough" % pid,
        evidence_file="/verif/evidence/%s.json" % pid,
        replay_cmd_template="./check %s --replay {path}" % pid,
        engine="gosym",
        level_claimed=dict(category=P.get("level", "model_checking"), text=P["level_text"], design_ref=P.get("design_ref", "DESIGN.md §4 " + pid)),
        level_note=P["level_note"],
        technique=P.get("technique", "bounded symbolic execution of the real Go SSA (go/ssa -> own executor -> SMT-LIB2 QF_BV -> z3), counterexamples replayed natively"),
    ))
na = [dict(property_id=pid, reason=props.NOT_APPLICABLE.get(pid, "not claimed yet: check under construction in this session (see DESIGN.md §8 build order)"))
      for pid in all_ids if pid not in props.PROPS]
m = dict(
    version=1,
    setup_cmd="cd /verif/engine && GOFLAGS=-mod=mod GOPROXY=off GOSUMDB=off GOTOOLCHAIN=local go build -o /verif/bin/gosym ./cmd/gosym",
    hooks=dict(guard="verif", enable="no tagged source in /repo: harness files from /verif/harness are injected by overlay (go/packages Overlay for the engine, go test -overlay for native replay)",
               baseline_off_cmd="cd /repo && GOFLAGS=-mod=mod GOPROXY=off go test -vet=off -count=1 ./...", source_commits=[], add_only=True),
    engines=[dict(name="gosym", path="/verif/engine", serves_properties=[c["property_id"] for c in checks],
                  kind_free_text="symbolic executor for Go SSA (vendored x/tools/go/ssa/interp extended with symbolic scalars/strings, path exploration by decision-prefix re-execution, long-lived z3 -in per worker), harnesses injected in-package by overlay, native replay of every counterexample")],
    checks=checks,
    notes="exit 0 = every obligation discharged within the stated bounds; 1 = reproduced unlisted violation; 2 = inconclusive (solver unknown, unsupported construct, unwinding/budget failure, vacuity, spurious counterexample, encoder-validation mismatch). Known findings: /verif/known_findings.json.",
    not_applicable=na,
)
json.dump(m, open(os.path.join(VERIF, "MANIFEST.json"), "w"), indent=1)
print("wrote MANIFEST.json with", len(checks), "checks;", len(na), "not applicable")
