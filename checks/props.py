"""Per-property configuration of the gosym checks."""

GENERATORS = {}

NOT_APPLICABLE = {}

PROPS = {
    "C16": dict(
        level="model_checking",
        level_text="bounded model checking by symbolic execution: the repository's Rule.MarshalJSON / Rule.UnmarshalJSON / StatefulDefinition.MarshalJSON are executed from SSA together with the real encoding/json (encoder, decoder, scanner, string escaping and unescaping, struct-tag handling) over the executor's reflect model; a lexer built from the unmarshalled rules is compared with the original (symbol table, token stream and error on every input of up to L symbolic bytes), and single rules are round-tripped with symbolic name / pattern / state bytes and every kind of action",
        level_note="trusted: the executor's reflect model (every sampled path is replayed natively with the real reflect and the real encoding/json), the reference regex matcher on symbolic input, z3; bounds: 17 catalogue + 40 (quick) / 400 (thorough) generated definitions x inputs <= 3 / 4 bytes; rule fields: texts of <= 2 bytes, the first any ASCII byte and the second from 10 class representatives, or one arbitrary two-byte UTF-8 character",
        runs=[dict(pkg="lexer", files=["lexer/zz_verif_json.go", "lexer/zz_verif_stateful.go", "lexer/zz_verif_lexdefs.go", "lexer/zz_verif_lexgen.go", "lexer/zz_verif_conc.go"], harness="^VH_C16_",
                   flags=["-exec-pkgs", "encoding/json,encoding,encoding/base64"], max_steps=20_000_000,
                   reach={"VH_C16_PushPop": ["round-trip"], "VH_C16_IncludeNested": ["round-trip"], "VH_C16_Generated": ["round-trip"], "VH_C16_RuleFields": ["round-trip"]})],
        bounds=dict(quick="20 catalogue definitions (every action kind, a state without rules, Include first/middle/nested/diamond, Return, elided rules with actions, back-references incl. one behind an unset group, multi-byte, non-ASCII and astral-plane patterns and names, names that start with a non-ASCII letter, names that need quoting) + 40 generated definitions, each marshalled both as a definition and as a rule set, x all inputs of <= 3 arbitrary bytes; rule fields: symbolic texts of <= 2 bytes",
                    thorough="400 generated definitions, inputs <= 4 bytes; rule-field texts as quick"),
        outside="definitions outside the catalogue and the generated family; patterns and names longer than the bound; non-ASCII text beyond one two-byte character in the symbolic rule fields (the catalogue has concrete non-ASCII patterns); invalid UTF-8 in names/patterns (encoding/json replaces it by U+FFFD; regexp.Compile rejects such patterns anyway)",
        assumptions=["encoding/json, encoding, encoding/base64 are executed from SSA; reflect is modelled over go/types; sync.Pool/sync.Map/sync.WaitGroup by single-threaded models",
                     "package regexp replaced by the reference matcher on symbolic input"],
        explanation="JSON round trip of lexer definitions with the real encoding/json executed symbolically; differential lexing of original vs. round-tripped definition.",
    ),
    "C12": dict(
        level="model_checking",
        level_text="bounded model checking by symbolic execution: base case + one inductive step per PeekingLexer operation from an arbitrary state satisfying the representation invariant; the solver discharges every assertion and every index/slice bound on all feasible paths of the real lexer/peek.go for streams up to the bound",
        level_note="trusted: the SSA executor (validated per run by replaying sampled paths natively), z3, the invariant (if too weak the step cases fail, never pass wrongly); bounds: <=4 (quick) / <=5 (thorough) tokens (7 before the elision sets were multiplied by four: reduced, stated)",
        runs=[dict(
            pkg="lexer", files=["lexer/zz_verif_peek.go"], harness="^VH_C12_",
            reach={
                "VH_C12_Base": ["base"], "VH_C12_Peek": ["peek"], "VH_C12_RawPeek": ["rawpeek"],
                "VH_C12_Next": ["next-eof", "next-advance"], "VH_C12_PeekAny": ["peekany"],
                "VH_C12_FastForward": ["ff-eof", "ff-token"], "VH_C12_FastForwardAny": ["ff-any"],
                "VH_C12_Range": ["range"], "VH_C12_Checkpoint": ["checkpoint"],
            },
        )],
        bounds=dict(
            quick="streams of <= 4 tokens + EOF, every token type an arbitrary 32-bit value != EOF, elision set one of {-2,-3}, {-64,9}, {-70,64}, {EOF,-2} (next to EOF, far from it, positive, naming EOF itself); cursors arbitrary 64-bit ints subject to the representation invariant; one operation from an arbitrary valid state (induction step) + base case; match predicate = one arbitrary bit per token",
            thorough="as quick with streams of <= 5 tokens + EOF (7 before the elision sets were multiplied by four; 6 did not finish within the time kept for it)",
        ),
        outside="streams longer than the bound; elision sets other than two types (the code treats the set only through map membership)",
        assumptions=[
            "induction: every reachable PeekingLexer state satisfies the invariant vhInv because Upgrade establishes it (base case) and each public operation preserves it (step cases)",
            "Go map iteration order is not modelled (insertion order); peek.go never iterates a map",
        ],
        explanation="Base case + one inductive step per public PeekingLexer operation from an arbitrary state satisfying the representation invariant; each assertion is discharged by the SMT solver on every feasible path of the real SSA of lexer/peek.go.",
    ),
    "C03": dict(
        level="model_checking",
        level_text="bounded model checking by symbolic execution: for every catalogue definition and every input of up to L arbitrary bytes, the real lexer.New + StatefulLexer.Next (rule order, include splicing, Return, Push/Pop, back-references, elision, error cases, span/position bookkeeping) is compared on every feasible path with a reference lexer written from the property statement; the solver decides which byte classes are feasible on each path",
        level_note="trusted: the reference regex matcher that replaces package regexp on symbolic input (validated against the real regexp natively, and every counterexample is replayed against the real regexp before it is reported), the SSA executor (sampled paths replayed natively on every run), z3; bounds: 39 catalogue definitions + 100 (quick) / 400 (thorough) generated definitions, inputs <= 3 (quick) / <= 4 (thorough) bytes",
        runs=[dict(pkg="lexer", files=["lexer/zz_verif_stateful.go", "lexer/zz_verif_lexdefs.go", "lexer/zz_verif_lexgen.go"], harness="^VH_C03_",
                   reach={h: ["error", "tokens"] for h in ["VH_C03_Literal", "VH_C03_Overlap", "VH_C03_PushPop", "VH_C03_Return", "VH_C03_IncludeNested", "VH_C03_Backref", "VH_C03_Generated", "VH_C03_ElidedActions"]})],
        bounds=dict(quick="100 generated definitions (deterministic generator: 3 states, 1-4 rules per state over 31 patterns, Push/Pop/Return/Include, elided rules with and without actions, back-references) and 46 catalogue definitions (literals, literal U+FFFD, escaped backslash + digit next to a back-reference, caseless rule names, (?i) literals with punctuation, overlapping rules, classes, ., multi-byte class, anchors/word boundaries, alternation, empty-matching rule, case folding, Push/Pop, Return, Include first/middle/nested, Pop and Return in Root, optional group in a Push rule, back-references incl. missing group, metacharacter group and a group behind an unset optional group, rule names starting with non-ASCII lower-case / upper-case / caseless letters) x all inputs of <= 3 arbitrary bytes (incl. invalid UTF-8)",
                    thorough="400 generated definitions + same catalogue x all inputs of <= 4 arbitrary bytes"),
        outside="definitions outside the catalogue and the generated family; inputs longer than the bound; correctness of package regexp itself; back-reference groups containing bytes >= 0x80",
        assumptions=["package regexp is replaced on symbolic input by the engine's reference matcher (refre.go), leftmost-first semantics over regexp/syntax trees",
                     "map iteration order in lexer.New is insertion order (New sorts keys before numbering symbols)"],
        explanation="Differential check of the real stateful lexer against a reference lexer derived from the property statement, on symbolic input bytes.",
    ),
    "C04": dict(
        level="model_checking",
        level_text="bounded model checking by symbolic execution: token values, offsets, ordering, EOF placement, line/column and filename are asserted from the input alone on every feasible path of the real StatefulLexer.Next for all inputs up to L bytes, plus a unit obligation for Position.Advance from an arbitrary position over an arbitrary span",
        level_note="trusted: as C03; the text/scanner-based lexer is executed from SSA on <= 3 bytes of a 10-byte alphabet (letters, digits, blanks, line breaks, quotes, comment characters; no multi-byte input); generated lexers are covered by the C05 run",
        runs=[dict(pkg="lexer", files=["lexer/zz_verif_stateful.go", "lexer/zz_verif_lexdefs.go", "lexer/zz_verif_lexgen.go"], harness="^VH_C04_",
                   reach={"VH_C04_Advance": ["same-line", "new-line"], "VH_C04_Literal": ["ok", "error"], "VH_C04_Multibyte": ["ok", "error"], "VH_C04_TextScanner": ["ok", "error"]})],
        bounds=dict(quick="Position.Advance: any 64-bit start position x any span of <= 4 arbitrary bytes; 17 catalogue definitions (incl. dot-all, rule names starting with bytes >= 0xE0 and no lower-case rule, negated class, multi-line, multi-byte literal rules, elided rules with actions, non-ASCII rule names) + 100 generated definitions x all inputs of <= 3 arbitrary bytes; 2 definitions x entry point in {LexString, Lex(reader)} chosen by the solver x prefix in {none, UTF-8 BOM, truncated BOM, UTF-16 BOM bytes} + <= 2 arbitrary bytes; default text/scanner lexer x all inputs of <= 3 bytes over a 10-byte alphabet",
                    thorough="Position.Advance: spans <= 5 bytes; inputs <= 4 bytes"),
        outside="text/scanner-based lexer beyond 3 bytes of its 10-byte alphabet (multi-byte characters, escapes, long literals); inputs longer than the bound",
        assumptions=["package regexp replaced by the reference matcher on symbolic input"],
        explanation="Position and losslessness invariants asserted on every path of the runtime lexer; Advance checked as a unit against its specification.",
    ),
    "C07": dict(
        level="model_checking",
        level_text="bounded model checking by symbolic execution: (1) whole runs from the initial state for all inputs up to L bytes: no panic, non-empty tokens, <= len+1 Next calls, EOF idempotent, Next after an error does not panic; (2) one inductive step of Next from an arbitrary lexer state (any reachable-shaped stack of depth <= 2, arbitrary groups, arbitrary remaining input): no panic and the stack invariant is preserved",
        level_note="trusted: as C03; the inductive step covers histories of any length only for the stack shapes in the bound (depth <= 2, <= 2 groups of <= 1 byte)",
        runs=[dict(pkg="lexer/internal/zzverifgen", pkg_name="zzverifgen", files=["gen/zz_verif_gen.go"], harness="^VH_C07_Gen_", generate="c05",
                   reach={"VH_C07_Gen_Literal": ["eof", "error"], "VH_C07_Gen_PushPop": ["eof", "error"]}),
              dict(pkg="lexer", files=["lexer/zz_verif_stateful.go", "lexer/zz_verif_lexdefs.go", "lexer/zz_verif_lexgen.go"], harness="^VH_C07_",
                   reach={"VH_C07_Run_Literal": ["eof", "error"], "VH_C07_Run_PushPop": ["eof", "error"], "VH_C07_Step_PushPop": ["token"], "VH_C07_Run_Generated": ["eof", "error"]})],
        bounds=dict(quick="runtime lexer: 16 catalogue + 100 generated definitions x inputs <= 3 bytes (whole run), plus 13..17 unlexable bytes in front of a symbolic tail; generated lexers: 35 catalogue + 24 generated definitions x inputs <= 3 bytes (whole run of the emitted code); 6 definitions x stack depth <= 2 x <= 2 groups of <= 1 byte x remaining input <= 3 bytes (step)",
                    thorough="inputs <= 4 bytes; 400 generated definitions for the runtime lexer, 120 through the generator"),
        outside="definitions outside the catalogue and the generated family; termination beyond the instruction budget is reported as inconclusive, not assumed",
        assumptions=["package regexp replaced by the reference matcher on symbolic input"],
        explanation="No-panic / progress / EOF-idempotence obligations on whole runs and on one inductive step from an arbitrary state.",
    ),
    "C05": dict(
        level="translation_validation",
        level_text="translation validation of the lexer generator's output: the real generator is run on each catalogue definition, the emitted Go source is loaded into the symbolic executor, and for every input of up to L arbitrary bytes the emitted lexer is compared with the runtime lexer (symbol table, token types, values, positions, elision, final EOF, error position, no panic); the only tolerated difference (possessive vs backtracking matching of some rule on that input) is decided per path by the engine's two reference matchers",
        level_note="trusted: reference matchers (backtracking and possessive) standing in for package regexp on symbolic input, the SSA executor (sampled paths replayed natively through the emitted code), z3; bounds: 35 catalogue + 24 (quick) / 120 (thorough) generated definitions x inputs <= 3 (quick) / <= 4 (thorough) bytes",
        runs=[dict(pkg="lexer/internal/zzverifgen", pkg_name="zzverifgen", files=["gen/zz_verif_gen.go"], harness="^VH_C05_", generate="c05",
                   reach={"VH_C05_Literal": ["tokens", "error"], "VH_C05_Possessive": ["tolerated", "tokens"], "VH_C05_PushPop": ["tokens"], "VH_C05_G0": ["error"]})],
        bounds=dict(quick="40 catalogue definitions of the generator's supported class (one per regexp operator the generator handles + multi-state Push/Pop/Return/Include + Pop/Return in Root + elided rules with actions + nullable repetition bodies + rule names starting with non-ASCII letters + literal U+FFFD + caseless rule names + (?i) literals with punctuation) and 24 generated definitions (deterministic generator restricted to the supported class) x all inputs of <= 3 arbitrary bytes",
                    thorough="same catalogue + 120 generated definitions x all inputs of <= 4 arbitrary bytes"),
        outside="definitions outside the catalogue and the generated family; inputs longer than the bound; back-reference / non-greedy / empty-matching rules (documented as unsupported by the generator); case-insensitive literals containing U+FFFD on invalid input bytes (known open difference, DESIGN 10.4 round 7, not in the catalogue)",
        assumptions=["package regexp replaced by reference matchers on symbolic input; the tolerated-difference predicate is 'possessive and backtracking reference matchers disagree on the span of some rule the runtime lexer tried on this input'"],
        explanation="The SSA executed for the generated side is the SSA of the code the real generator emitted from the current tree.",
    ),
    "C18": dict(
        level="model_checking",
        level_text="bounded model checking by symbolic execution: the repository's unquote and the standard library's strconv.Unquote are both executed from SSA on the same symbolic literal bytes and compared on every feasible path (all byte strings up to the bound, and structured literals made of plain bytes, escape letters, \\xHH, \\OOO and \\uHHHH items in the three quoting styles); invalid escapes must be rejected",
        level_note="trusted: the SSA executor (sampled paths replayed natively), z3 (+ byte-domain fast path cross-checked against z3 every 50th verdict); bounds: literals <= 4 (quick) / 5 (thorough) bytes, structured literals <= 2 / 3 items; mapper selection (Map/Upper on selected token types) is checked in the parser-side run",
        runs=[dict(pkg=".", files=["root/zz_verif_map.go", "root/zz_verif_ref.go", "root/zz_verif_ggcore.go", "root/zz_verif_parse.go", "root/zz_verif_grammars.go", "root/zz_verif_gengrammar.go"], harness="^VH_C18_",
                   reach={"VH_C18_UnquoteFree": ["stdlib-accepts", "stdlib-rejects"], "VH_C18_UnquoteStructured": ["stdlib-accepts", "stdlib-rejects", "single-quoted"],
                          "VH_C18_InvalidEscape": ["invalid", "valid"], "VH_C18_Select": ["mapped"], "VH_C18_Chain": ["chained"]})],
        bounds=dict(quick="all byte strings of length 2..4 as token text; structured literals: quote in {\", `, '} x <= 2 items (first item any of 5 kinds, later items plain/escape-letter/\\xHH) with symbolic bytes, letters and digits",
                    thorough="byte strings up to 5; structured literals up to 3 items, later items also \\OOO"),
        outside="literals longer than the bound; strings.ToUpper on non-ASCII (Upper is checked for selection and position only)",
        assumptions=["strconv.Unquote (executed from SSA) is the specification of Go quoting"],
        explanation="Differential check unquote vs strconv.Unquote with both sides executed symbolically from SSA.",
    ),
    "C01": dict(
        level="model_checking",
        level_text='bounded model checking by symbolic execution: the real Build (tag lexing by text/scanner executed from SSA, grammar.go, validate) and the real Parse (parser.go, nodes.go, context.go, lexer/peek.go) run on a symbolic token stream; accept/reject and every AST field are compared on every feasible path with an independent reference semantics of the tag language',
        level_note='trusted: the reference semantics (own tag parser + evaluator written from the README, validated natively against the implementation on 960k random cases while designing), the reflect model of the executor (sampled paths are replayed natively with the real reflect on every run), z3; bounds: catalogue grammars x streams of <= 5 (quick) / <= 6 (thorough) tokens of arbitrary type and arbitrary one-byte text, lookahead an unconstrained 64-bit int, AllowTrailing symbolic',
        runs=[dict(pkg=".", files=["root/zz_verif_ref.go", "root/zz_verif_ggcore.go", "root/zz_verif_parse.go", "root/zz_verif_grammars.go", "root/zz_verif_gengrammar.go"], harness='^VH_C01_', reach={'VH_C01_Alt': ['accept', 'reject'], 'VH_C01_Union': ['accept', 'reject'], 'VH_C01_Fold': ['accept'], 'VH_C01_Lookahead': ['accept', 'reject']})],
        bounds={'quick': 'streams of <= 5 tokens + EOF, token types arbitrary 64-bit values != EOF, token texts arbitrary single bytes, lookahead any int (negative = unlimited), AllowTrailing on/off; symbols A,B,C,Ws,Cm (numbered next to EOF, and in one harness of C01/C10 far from it: -64, -70, and with positive values); plus 48 generated grammars (deterministic generator over every operator of the tag language, <= 3 productions, reflect.StructOf types through the real Build) x streams of <= 4 tokens (every twelfth grammar is one level deeper - repetitions inside captures, negated groups - and gets streams of <= 3)', 'thorough': 'as quick with streams of <= 6 tokens; 200 generated grammars x streams of <= 5 tokens (<= 4 for the deeper ones)'},
        outside='grammars outside the catalogue (20 grammars: sequence, choice, ? * + !, [ ] { }, multi-token captures, parser:"" tag form, ~, (?= ) (?! ), typed literals, case-insensitive tokens, @@ into *T / T / []*T / []T, recursion, unions, lexer.Token / []lexer.Token captures, elision); streams longer than the bound; token texts longer than one byte; non-ASCII case folding; Parseable/Capture/TextUnmarshaler user code; numeric fields (C17); which error is returned (C06)',
        assumptions=["text/scanner, strconv, unicode are executed from SSA; reflect is modelled over go/types; fmt by a small printf model",
                     "token identity is index identity (positions are concrete and unique)"],
        explanation="Real Build + real Parse on a symbolic token stream vs. reference semantics / relational oracle.",
    ),
    "C02": dict(
        level="model_checking",
        level_text='as C01 on grammars in which a capture precedes a possible failure inside every kind of choice point (alternative, ?, *, ~, lookahead group, union member), including a complete sub-production matched inside the abandoned attempt; every AST field — also fields the accepted derivation never wrote — is compared with the reference on every accepted path',
        level_note='trusted: the reference semantics (own tag parser + evaluator written from the README, validated natively against the implementation on 960k random cases while designing), the reflect model of the executor (sampled paths are replayed natively with the real reflect on every run), z3; bounds: catalogue grammars x streams of <= 5 (quick) / <= 6 (thorough) tokens of arbitrary type and arbitrary one-byte text, lookahead an unconstrained 64-bit int, AllowTrailing symbolic',
        runs=[dict(pkg=".", files=["root/zz_verif_ref.go", "root/zz_verif_ggcore.go", "root/zz_verif_parse.go", "root/zz_verif_grammars.go", "root/zz_verif_gengrammar.go"], harness='^VH_C02_', reach={'VH_C02_Leak': ['accept', 'reject'], 'VH_C02_LeakOpt': ['accept'], 'VH_C02_LeakNested': ['accept']})],
        bounds={'quick': 'streams of <= 5 tokens + EOF, token types arbitrary 64-bit values != EOF, token texts arbitrary single bytes, lookahead any int (negative = unlimited), AllowTrailing on/off; symbols A,B,C,Ws,Cm (numbered next to EOF, and in one harness of C01/C10 far from it: -64, -70, and with positive values); plus 48 generated grammars (deterministic generator over every operator of the tag language, <= 3 productions, reflect.StructOf types through the real Build) x streams of <= 4 tokens (every twelfth grammar is one level deeper - repetitions inside captures, negated groups - and gets streams of <= 3)', 'thorough': 'as quick with streams of <= 6 tokens; 200 generated grammars x streams of <= 5 tokens (<= 4 for the deeper ones)'},
        outside='grammars outside the catalogue; streams longer than the bound',
        assumptions=["text/scanner, strconv, unicode are executed from SSA; reflect is modelled over go/types; fmt by a small printf model",
                     "token identity is index identity (positions are concrete and unique)"],
        explanation="Real Build + real Parse on a symbolic token stream vs. reference semantics / relational oracle.",
    ),
    "C06": dict(
        level="model_checking",
        level_text='bounded model checking by symbolic execution: on every feasible path of Build + ParseString over a symbolic token stream: no panic; nil error implies non-nil AST; an error implements participle.Error, comes with a non-nil partial AST, its position is the position of a token of the input, an UnexpectedTokenError carries the token at that position, and Error() is the documented [file:]line:col: message rendering',
        level_note='trusted: the reference semantics (own tag parser + evaluator written from the README, validated natively against the implementation on 960k random cases while designing), the reflect model of the executor (sampled paths are replayed natively with the real reflect on every run), z3; bounds: catalogue grammars x streams of <= 5 (quick) / <= 6 (thorough) tokens of arbitrary type and arbitrary one-byte text, lookahead an unconstrained 64-bit int, AllowTrailing symbolic',
        runs=[dict(pkg=".", files=["root/zz_verif_ref.go", "root/zz_verif_ggcore.go", "root/zz_verif_parse.go", "root/zz_verif_grammars.go", "root/zz_verif_gengrammar.go", "root/zz_verif_entry.go"], harness='^VH_C06_', reach={'VH_C06_Seq': ['ok', 'error', 'unexpected-token'], 'VH_C06_EmptyTok': ['ok', 'error'], 'VH_C06_Bytes': ['ok', 'lex-error', 'parse-error'], 'VH_C06_LongError': ['lex-error'], 'VH_C06_DefaultLexer': ['ok', 'lex-error', 'parse-error'], 'VH_C06_Unquote': ['error'], 'VH_C06_BytesMB': ['ok', 'error'], 'VH_C06_PtrMixin': ['ok', 'error']})],
        bounds={'quick': 'streams of <= 5 tokens + EOF, token types arbitrary 64-bit values != EOF, token texts arbitrary single bytes, lookahead any int (negative = unlimited), AllowTrailing on/off; symbols A,B,C,Ws,Cm (numbered next to EOF, and in one harness of C01/C10 far from it: -64, -70, and with positive values); plus 48 generated grammars (deterministic generator over every operator of the tag language, <= 3 productions, reflect.StructOf types through the real Build) x streams of <= 4 tokens (every twelfth grammar is one level deeper - repetitions inside captures, negated groups - and gets streams of <= 3)', 'thorough': 'as quick with streams of <= 6 tokens; 200 generated grammars x streams of <= 5 tokens (<= 4 for the deeper ones)'},
        outside='stack depth and running time on long or deeply nested inputs (a bounded symbolic run says nothing about them); lexing failures through the real lexers (covered by C03/C07 at the lexer level); grammars outside the catalogue; user Parseable/Capture code',
        assumptions=["text/scanner, strconv, unicode are executed from SSA; reflect is modelled over go/types; fmt by a small printf model",
                     "token identity is index identity (positions are concrete and unique)"],
        explanation="Real Build + real Parse on a symbolic token stream vs. reference semantics / relational oracle.",
    ),
    "C10": dict(
        level="model_checking",
        level_text="relational bounded model checking: one symbolic raw stream S with elided tokens anywhere and the stream S' with every elided token removed are parsed by the same grammar; acceptance and every captured field must agree on every feasible path (any two inputs with equal non-elided sequences are both related to the same S'); a grammar that names the elided type is compared with the reference semantics",
        level_note='trusted: the reference semantics (own tag parser + evaluator written from the README, validated natively against the implementation on 960k random cases while designing), the reflect model of the executor (sampled paths are replayed natively with the real reflect on every run), z3; bounds: catalogue grammars x streams of <= 5 (quick) / <= 6 (thorough) tokens of arbitrary type and arbitrary one-byte text, lookahead an unconstrained 64-bit int, AllowTrailing symbolic',
        runs=[dict(pkg=".", files=["root/zz_verif_ref.go", "root/zz_verif_ggcore.go", "root/zz_verif_parse.go", "root/zz_verif_grammars.go", "root/zz_verif_gengrammar.go"], harness='^VH_C10_', reach={'VH_C10_Seq': ['has-elided', 'accepted'], 'VH_C10_Alt': ['has-elided', 'accepted'], 'VH_C10_Named': ['accept']})],
        bounds={'quick': 'streams of <= 5 tokens + EOF, token types arbitrary 64-bit values != EOF, token texts arbitrary single bytes, lookahead any int (negative = unlimited), AllowTrailing on/off; symbols A,B,C,Ws,Cm (numbered next to EOF, and in one harness of C01/C10 far from it: -64, -70, and with positive values); plus 48 generated grammars (deterministic generator over every operator of the tag language, <= 3 productions, reflect.StructOf types through the real Build) x streams of <= 4 tokens (every twelfth grammar is one level deeper - repetitions inside captures, negated groups - and gets streams of <= 3)', 'thorough': 'as quick with streams of <= 6 tokens; 200 generated grammars x streams of <= 5 tokens (<= 4 for the deeper ones)'},
        outside='grammars outside the catalogue; streams longer than the bound; elided tokens whose text equals an untyped literal of the grammar (assumed away: such a literal asks for the token)',
        assumptions=["text/scanner, strconv, unicode are executed from SSA; reflect is modelled over go/types; fmt by a small printf model",
                     "token identity is index identity (positions are concrete and unique)"],
        explanation="Real Build + real Parse on a symbolic token stream vs. reference semantics / relational oracle.",
    ),
    "C11": dict(
        level="model_checking",
        level_text='bounded model checking by symbolic execution: on every accepted path the Tokens / Pos / EndPos fields of every node (direct and via an embedded struct) are compared with the token run the reference semantics assigns to that node: contiguity, containment in the parent, sibling order, root run ending at the last consumed token, Pos = first non-elided token, EndPos = next raw token',
        level_note='trusted: the reference semantics (own tag parser + evaluator written from the README, validated natively against the implementation on 960k random cases while designing), the reflect model of the executor (sampled paths are replayed natively with the real reflect on every run), z3; bounds: catalogue grammars x streams of <= 5 (quick) / <= 6 (thorough) tokens of arbitrary type and arbitrary one-byte text, lookahead an unconstrained 64-bit int, AllowTrailing symbolic',
        runs=[dict(pkg=".", files=["root/zz_verif_ref.go", "root/zz_verif_ggcore.go", "root/zz_verif_parse.go", "root/zz_verif_grammars.go", "root/zz_verif_gengrammar.go"], harness='^VH_C11_', reach={'VH_C11_Pos': ['accept', 'node-consumed'], 'VH_C11_Embedded': ['accept', 'node-consumed']})],
        bounds={'quick': 'streams of <= 5 tokens + EOF, token types arbitrary 64-bit values != EOF, token texts arbitrary single bytes, lookahead any int (negative = unlimited), AllowTrailing on/off; symbols A,B,C,Ws,Cm (numbered next to EOF, and in one harness of C01/C10 far from it: -64, -70, and with positive values); plus 48 generated grammars (deterministic generator over every operator of the tag language, <= 3 productions, reflect.StructOf types through the real Build) x streams of <= 4 tokens (every twelfth grammar is one level deeper - repetitions inside captures, negated groups - and gets streams of <= 3)', 'thorough': 'as quick with streams of <= 6 tokens; 200 generated grammars x streams of <= 5 tokens (<= 4 for the deeper ones)'},
        outside='grammars outside the catalogue; convertible position types other than lexer.Position; streams longer than the bound',
        assumptions=["text/scanner, strconv, unicode are executed from SSA; reflect is modelled over go/types; fmt by a small printf model",
                     "token identity is index identity (positions are concrete and unique)"],
        explanation="Real Build + real Parse on a symbolic token stream vs. reference semantics / relational oracle.",
    ),
    "C13": dict(
        level="model_checking",
        level_text='relational bounded model checking: the same symbolic stream is parsed with lookahead k and k2, both symbolic with k >= 0 and (k2 < 0 or k2 > k); whenever the first parse succeeds the second must succeed with a field-by-field identical AST (no reference semantics involved)',
        level_note='trusted: the reference semantics (own tag parser + evaluator written from the README, validated natively against the implementation on 960k random cases while designing), the reflect model of the executor (sampled paths are replayed natively with the real reflect on every run), z3; bounds: catalogue grammars x streams of <= 5 (quick) / <= 6 (thorough) tokens of arbitrary type and arbitrary one-byte text, lookahead an unconstrained 64-bit int, AllowTrailing symbolic',
        runs=[dict(pkg=".", files=["root/zz_verif_ref.go", "root/zz_verif_ggcore.go", "root/zz_verif_parse.go", "root/zz_verif_grammars.go", "root/zz_verif_gengrammar.go"], harness='^VH_C13_', reach={'VH_C13_Alt': ['succeeds-with-k', 'fails-with-k'], 'VH_C13_LeakOpt': ['succeeds-with-k']})],
        bounds={'quick': 'streams of <= 5 tokens + EOF, token types arbitrary 64-bit values != EOF, token texts arbitrary single bytes, lookahead any int (negative = unlimited), AllowTrailing on/off; symbols A,B,C,Ws,Cm (numbered next to EOF, and in one harness of C01/C10 far from it: -64, -70, and with positive values); plus 48 generated grammars (deterministic generator over every operator of the tag language, <= 3 productions, reflect.StructOf types through the real Build) x streams of <= 4 tokens (every twelfth grammar is one level deeper - repetitions inside captures, negated groups - and gets streams of <= 3)', 'thorough': 'as quick with streams of <= 6 tokens; 200 generated grammars x streams of <= 5 tokens (<= 4 for the deeper ones)'},
        outside='grammars outside the catalogue (9 grammars without ~ and lookahead groups); streams longer than the bound',
        assumptions=["text/scanner, strconv, unicode are executed from SSA; reflect is modelled over go/types; fmt by a small printf model",
                     "token identity is index identity (positions are concrete and unique)"],
        explanation="Real Build + real Parse on a symbolic token stream vs. reference semantics / relational oracle.",
    ),
    "C19": dict(
        level="model_checking",
        level_text="bounded exploration through the symbolic executor: the tag lexer is stubbed so that every struct field yields an arbitrary sequence of up to T tokens of the tag alphabet; the real parseType / parseDisjunction / parseSequence / parseTerm / parseModifier / parseCapture / parseGroup / lookahead / negation / literal code, struct.go's structLexer and validate/visit run on every such token sequence and must return a node xor an error and never panic; the positive direction (documented grammars build) is asserted by every C01 run. Honest accounting: the tag alphabet is finite, so the solver only decides the feasibility of the choices; the exploration is exhaustive within the bound",
        level_note="trusted: the stub contract (text/scanner + textScannerTransform turn the rendered tag text into exactly the chosen tokens) — validated on every run because sampled paths and every counterexample are replayed natively with real struct tags lexed by the real scanner; reflect.StructOf is modelled over go/types; bounds below",
        runs=[dict(pkg=".", files=["root/zz_verif_ref.go", "root/zz_verif_ggcore.go", "root/zz_verif_parse.go", "root/zz_verif_grammars.go", "root/zz_verif_build.go"], harness="^VH_C19_", samples=12,
                   reach={"VH_C19_FieldTypes": ["built", "rejected"], "VH_C19_TagBytes": ["built", "rejected"], "VH_C19_Soup1": ["built", "rejected"], "VH_C19_Soup2": ["built", "rejected"]})],
        bounds=dict(quick="one field: all sequences of 1..3 tokens over a 15-token alphabet (@ ! ~ ? * + ( ) [ ] | : known ident, unknown ident, string) x 6 field types (string, *Struct, []string, bool, map, interface); two fields: all sequences of 1..2 tokens per field over an 8-token alphabet x 3 field types; fields of a struct embedded three levels deep (must build / must be rejected); 50 kinds of field type (Parseable by value/pointer/interface, Capture, TextUnmarshaler, self-referential slice and pointer types, named slice/pointer types that reach a self-referential or mutually recursive type from outside its cycle, slices of pointers to scalars, arrays, channels, funcs, numeric, nested slices ...) x 12 capture forms under a termination bound; character level: 4 valid prefixes + a tail of <= 2 characters from an 18-character alphabet (quotes, back-quote, backslash, brackets, operators, NUL, newline, non-ASCII) through the real tag lexer and text/scanner",
                    thorough="one field: 1..4 tokens over an 18-token alphabet (adds { } =) x 8 field types; two fields: 1..3 tokens per field; tag tails of <= 3 characters"),
        outside="tokenisation of arbitrary tag characters beyond the character-level harness (the token-soup harnesses stub the tag lexer); reflect shapes beyond the list; tags longer than the bound",
        assumptions=["(*tagLexer).Next is replaced by a harness stub returning the chosen tokens (same tokens whenever a field is re-lexed)"],
        explanation="Token-soup exploration of the grammar front end; no panic and node xor error on every path.",
    ),
    "C08": dict(
        level="model_checking",
        level_text="bounded exploration through the symbolic executor, two halves: (1) for every instance of a template of two mutually referring productions (recursive reference in the first or a later alternative, after optional / lookahead / non-empty prefixes, inside groups, captures and lookahead groups, through the other production) the real validate/visit/isLeftRecursive run on the directly constructed node graph and are compared with a reference analysis (nullable + leftmost-call graph + cycle search); (2) every instance that validate accepts is parsed on a symbolic token stream under a monitor around (*strct).Parse asserting that no production is re-entered at the same cursor (solver-decided on token texts and the lookahead)",
        level_note="trusted: the reference analysis (half 1) - cross-checked by the independent run-time monitor (half 2); node graphs are built as parseSequence/parseDisjunction shape them (head flags, collapsing of singletons); the template's selectors are finite, so for half 1 the solver decides feasibility only; bounds below",
        runs=[dict(pkg=".", files=["root/zz_verif_ref.go", "root/zz_verif_ggcore.go", "root/zz_verif_parse.go", "root/zz_verif_grammars.go", "root/zz_verif_graph.go"], harness="^VH_C08_",
                   reach={"VH_C08_Validate": ["left-recursive", "not-left-recursive"], "VH_C08_ValidateWide": ["left-recursive", "not-left-recursive"], "VH_C08_ValidateThree": ["left-recursive", "not-left-recursive"], "VH_C08_Parse": ["accepted-by-validate", "parsed", "rejected"]})],
        bounds=dict(quick="root production: 1-2 alternatives, <= 2 terms in the first and 1 in the second, 10 term kinds (literal, lit?, (?= lit), ~lit, @@self, @@other, (@@self)?, (?= @@self), (lit?)!, (@(lit?))!); second production: 1-2 terms from {literal, lit?, @@self, @@root}: 24 200 grammars; wide template: one alternative of <= 4 terms; three-production template (entry production in front of two mutually referring ones): 2 400 grammars; non-empty-group template (( @@self )!, ( @@other )!, ( @@self lit )!, EOF, \"\" next to token-led alternatives): 10 800 grammars; parse half: streams <= 3 tokens, lookahead any int",
                    thorough="15 term kinds (adds lit*, lit+, (?! lit), (@@self), ~(@@other)); streams <= 4 tokens (a second alternative of two terms was tried and dropped: the run did not finish within two hours)"),
        outside="grammars outside the template (3+ productions, unions, deeper nesting); the front end that builds the graph from tags is covered by C01/C19",
        assumptions=["monitor installed by wrapping (*strct).Parse in the executor (vWrap); natively a violation of half 2 shows as a fatal stack overflow"],
        explanation="validate vs reference left-recursion analysis on a grammar template + run-time no-re-entry monitor.",
    ),
    "C17": dict(
        level="model_checking",
        level_text="bounded model checking by symbolic execution of setField / conform / sizeOfKind / the capture and error path of strct.Parse through the real Build and Parse: (A) for every integer kind (int8..int64, int, uint8..uint64, uint, a named type, a pointer) the captured text is opaque and strconv.ParseInt/ParseUint are uninterpreted functions with the documented contract; the solver proves, for every 64-bit result and both outcomes, that the stored value equals the result of the conversion the property prescribes (base 0, the field's bit size) or that the parse fails with an error located at the captured token and nothing stored; (B) joined tokens, slices and floats are checked on a catalogue of 40 boundary texts against strconv itself",
        level_note="trusted: uninterpreted-function model of strconv.ParseInt/ParseUint (functional consistency + 'on success the value fits bitSize'); reflect model (SetInt/SetUint truncate like the real ones; sampled paths replayed natively with real reflect and real strconv); z3",
        runs=[dict(pkg=".", files=["root/zz_verif_ref.go", "root/zz_verif_ggcore.go", "root/zz_verif_parse.go", "root/zz_verif_grammars.go", "root/zz_verif_num.go"], harness="^VH_C17_",
                   reach={"VH_C17_Int8": ["converts", "rejects"], "VH_C17_Uint16": ["converts", "rejects"], "VH_C17_Alt": ["converts", "rejects", "other-alternative"],
                          "VH_C17_Join": ["converts", "rejects"], "VH_C17_Slice": ["converts", "rejects"], "VH_C17_SliceBatch": ["converts", "rejects"], "VH_C17_Float32": ["converts", "rejects"]})],
        bounds=dict(quick="family A: 12 field shapes x all (value, ok) results of the uninterpreted conversion (64-bit symbolic); family B: 40 boundary texts (width limits of every size, hex/octal/binary prefixes, underscores, empty, exponent, Inf/NaN, float32 overflow) x {joined with '-' (also with 0-2 elided tokens between the joined tokens, and with leading + / - sign tokens into unsigned and signed scalars), 1-2 slice elements (also of a slice of pointers), float32, float64}",
                    thorough="same (the finite kind set is complete)"),
        outside="numeric texts outside the catalogue for floats and slices (family B is an enumeration, not solver-decided); complex kinds",
        assumptions=["strconv.ParseInt/ParseUint on opaque text = uninterpreted function of (text, base, bitSize) with contract ok => value fits bitSize"],
        explanation="Numeric conversion path with strconv as an uninterpreted function (solver ranges over all 64-bit results).",
    ),
    "C09": dict(
        level="model_checking",
        level_text="decided through a sufficient condition plus symbolic schedules at the granularity of Next: (1) frame condition: after Build / lexer.New / package init every object reachable from the Parser, the lexer Definition and the package-level EBNF parser is frozen in the executor; on every feasible path of Parse*/Lex/String and LexString+Next over symbolic inputs a store into a frozen cell, a write to a frozen map or an append into a frozen slice's spare capacity ends the path as a violation, so concurrent calls work on disjoint mutable memory; (2) history independence: the same call repeated on the same object returns the same result, and for back-reference definitions lexing after an arbitrary earlier input equals lexing with a fresh definition (transparency of the one shared mutable structure, the sync.Map cache); (3) two lexers of one definition advanced in an order given by symbolic schedule bits deliver, for every schedule, the streams fresh definitions deliver alone",
        level_note="trusted: sync.Map is linearizable and *regexp.Regexp / reflect caches are safe for concurrent use (stdlib contracts); the executor's heap model (cells = Go variables; maps and slices tracked as described); real interleavings and the race detector are outside this technique; bounds as C01/C03",
        runs=[dict(pkg=".", files=["root/zz_verif_ref.go", "root/zz_verif_ggcore.go", "root/zz_verif_parse.go", "root/zz_verif_grammars.go", "root/zz_verif_entry.go", "root/zz_verif_conc.go", "root/zz_verif_map.go"], harness="^VH_C09_", reach={"VH_C09_Parse_Alt": ["accepted", "rejected"], "VH_C09_Parse_Union": ["accepted"], "VH_C09_Parse_Mapped": ["mapped"], "VH_C09_Parse_Retained": ["accepted"], "VH_C09_Parse_RetainedCapture": ["accepted"], "VH_C09_Production": ["accepted", "rejected"]}),
              dict(pkg="lexer", files=["lexer/zz_verif_stateful.go", "lexer/zz_verif_lexdefs.go", "lexer/zz_verif_lexgen.go", "lexer/zz_verif_conc.go"], harness="^VH_C09_",
                   reach={"VH_C09_Frame_PushPop": ["lexed", "error"], "VH_C09_History_Backref": ["compared"], "VH_C09_History_Collide": ["compared"], "VH_C09_Interleave_PushPop": ["interleaved"], "VH_C09_Interleave_Backref": ["interleaved"], "VH_C09_Interleave_Zero": ["interleaved"]}),
              dict(pkg="ebnf", files=["ebnf/zz_verif_ebnf.go", "root/zz_verif_ggcore.go"], harness="^VH_C09_", reach={"VH_C09_EBNFParser": ["parsed", "failed"]})],
        bounds=dict(quick="parser: 6 grammars x streams <= 5 tokens (3 Parse calls + String + Lex per path on one frozen parser); 2 token-retaining grammars (node Tokens, []lexer.Token capture): the AST of a parse re-inspected after parses of a different input; ParserForProduction on a frozen parser (String() and parse results of the original unchanged); lexer: 5 definitions x inputs <= 3 bytes lexed twice on one frozen definition; cache: 2 back-reference definitions, first input <= 3 (2) bytes, second <= 3 (4) bytes over a 3-letter alphabet incl. NUL; interleaving: 4 definitions, two lexers of one frozen definition on two inputs of <= 2 arbitrary bytes (<= 3-4 bytes over a 3-letter alphabet for the back-reference definitions), the order of their Next calls chosen by the solver (one symbolic bit per step), each stream compared with a fresh definition used alone; ebnf: 4 texts on the frozen package-level parser",
                    thorough="streams <= 6 tokens; inputs <= 4 bytes"),
        outside="real schedules, the Go memory model below the level of variables, races inside user mappers / Parseable code, generated lexers (their definition value is an empty struct; per-call state only)",
        assumptions=["no data race is possible between calls that write only memory they allocated themselves or were handed by the caller (Go memory model)"],
        explanation="Frame condition via a store trap on frozen objects + direct history-independence assertions.",
    ),
    "C15": dict(
        level="model_checking",
        level_text="relational bounded model checking by symbolic execution: Trace on/off (same AST and error), ParseFromLexer leaves the caller's lexer at the first unconsumed token (compared with the reference semantics' end position), Parse(reader) / ParseString / ParseBytes / ParseFromLexer over the parser's own lexer return the same AST and the same error for every symbolic input, Parser.Lex returns the tokens the parse consumes (also with an Upper mapper, which only implements Lex), and a definition's Lex and LexString yield identical streams",
        level_note="trusted: io.Copy / strings.Reader / bytes.Reader models (the writer receives exactly the reader's bytes, no error), fmt model for trace output, reference matcher for regexp on symbolic input; default text/scanner lexer content is outside (routing only)",
        runs=[dict(pkg=".", files=["root/zz_verif_ref.go", "root/zz_verif_ggcore.go", "root/zz_verif_parse.go", "root/zz_verif_grammars.go", "root/zz_verif_entry.go", "root/zz_verif_conc.go", "root/zz_verif_map.go"], harness="^VH_C15_",
                   reach={"VH_C15_Routing": ["parsed", "failed"], "VH_C15_RoutingMapped": ["parsed", "failed"], "VH_C15_Trace_Alt": ["traced"], "VH_C15_Cursor_Seq": ["accept"], "VH_C15_LexEntryPoints": ["lexed"], "VH_C15_RoutingDefault": ["parsed", "failed"], "VH_C15_RoutingConfigured": ["parsed", "failed"], "VH_C15_LexEntryPointsDefault": ["lexed", "lex-error"]})],
        bounds=dict(quick="Trace/cursor: 6 grammar x configuration pairs + a root production implemented by user code (Parseable), streams <= 5 tokens; text/scanner definition with and without a configure callback on <= 3 bytes of a 15-byte alphabet through ParseString / ParseBytes / Parse; routing: stateful lexer (Ident/Num/elided ws) + grammar, inputs <= 3 arbitrary bytes, filename in {\"\", \"f\"}, with and without Upper(\"Ident\")",
                    thorough="streams <= 6 tokens; inputs <= 4 bytes"),
        outside="the default text/scanner lexer's tokenisation; generated lexers' Lex/LexString/LexBytes (they share one code path: LexBytes and Lex call LexString)",
        assumptions=["io.Copy(w, r) delivers exactly the reader's bytes"],
        explanation="All entry points compared pairwise on symbolic inputs.",
    ),
    "C14": dict(
        level="model_checking",
        level_text="partial claim, bounded exploration through the symbolic executor: (a) every EBNF syntax tree of a bounded template (Negation symbolic, any modifier, name/literal/token/group, any lookahead marker, sequences and alternatives) is printed by the real String methods and parsed back by the real ebnf parser; the trees must be equal (so no operator is lost or altered); (b) for grammars using every operator, a union and anonymous struct types, the real Parser.String() must not panic, must be accepted by the ebnf package, put the root production first, define every referenced production exactly once, contain every operator of the grammar, and survive a second round trip",
        level_note="trusted: text/scanner executed from SSA on the (concrete) printed text; the template's shape selectors are finite (enumeration through the executor; the solver decides the symbolic Negation flag); whole-grammar half is a fixed catalogue of 3 grammars",
        runs=[dict(pkg="ebnf", files=["ebnf/zz_verif_ebnf.go", "root/zz_verif_ggcore.go"], harness="^VH_C14_", max_steps=60_000_000, reach={"VH_C14_TreeRoundTrip": ["round-trip"], "VH_C14_Literals": ["round-trip"], "VH_C14_Grammar_All": ["grammar"], "VH_C14_Grammar_Anonymous": ["grammar"], "VH_C14_Generated": ["grammar"], "VH_C14_Grammar_WholeBody": ["grammar"], "VH_C14_Grammar_Negations": ["grammar"], "VH_C14_Grammar_AnonTwins": ["grammar"], "VH_C14_Grammar_LookaheadOnly": ["grammar"], "VH_C14_Grammar_CapParens": ["grammar"], "VH_C14_Grammar_NonASCIITypes": ["grammar"]})],
        bounds=dict(quick="trees: first term a leaf or a group (any lookahead marker) around a term, second element (sequence or alternative) a simple leaf; 12 090 trees; grammars: all-operators grammar (incl. literals that need escaping), union grammar, anonymous struct grammar, 48 generated grammars (union root, anonymous struct types, every operator, escaped literals), whole-body / negation / lookahead-only / capture-in-parentheses grammars; literal terms: 9 escape-needing texts in sequences and alternatives",
                    thorough="group nesting depth 2; 400 generated grammars"),
        outside="grammars outside the three catalogue grammars; literal texts needing escapes beyond quote and backslash; cmd/railroad",
        assumptions=[],
        explanation="Round trip of symbolic EBNF trees and Parser.String() of catalogue grammars through the real ebnf parser.",
    ),
}


# ---------------------------------------------------------------------------
# C05: run the real generator on every catalogue definition and lay the
# emitted source out as a virtual package inside /repo.

import json as _json
import os as _os
import re as _re
import subprocess as _sp

C05_DEFS = ["Literal", "Overlap", "Classes", "Dot", "Multibyte", "Anchors", "Alternation", "Fold", "PushPop", "String",
            "Return", "ReturnNested", "ReturnSelf", "IncludeFirst", "IncludeMiddle", "IncludeNested", "IncludeDiamond", "MultiLine", "Astral", "OddNames", "LiteralMB", "Latin1Class", "NonASCIINames", "ReplacementLit", "CaselessNames", "FoldPunct", "EmptyState", "PopInRoot", "ReturnInRoot", "OptionalGroupPush",
            "ElidedActions", "NullableStar", "Possessive", "Repeat", "EmptyAlt", "NoWordBoundary", "EndAnchors", "FoldClass", "DotAll", "NonASCIILit", "NegClass"]

C05_GENERATED = {"quick": 24, "thorough": 120}

GENPKG_DIR = "lexer/internal/zzverifgen"


def _gen_c05(spec, tier, seed, tmp, REPO, GOENV):
    verif = _os.path.dirname(_os.path.dirname(_os.path.abspath(__file__)))
    work = _os.path.join(tmp, "c05")
    _os.makedirs(work, exist_ok=True)
    cat_src = open(_os.path.join(verif, "harness", "lexer", "zz_verif_lexdefs.go")).read()
    names = _re.findall(r"^func vhDef(\w+)\(\) Rules", cat_src, _re.M)
    defs = [d for d in C05_DEFS if d in names]
    # generated family (harness/lexer/zz_verif_lexgen.go, supported class only)
    ngen = C05_GENERATED.get(tier, C05_GENERATED["quick"])
    gen_src = open(_os.path.join(verif, "harness", "lexer", "zz_verif_lexgen.go")).read()
    # 1. dump the definitions as JSON with the real encoder (native test in package lexer)
    dump = _os.path.join(work, "zz_verif_dump_test.go")
    open(dump, "w").write('package lexer\n\nimport (\n\t"encoding/json"\n\t"os"\n\t"path/filepath"\n\t"testing"\n)\n\n'
                          'func TestVDumpDefs(t *testing.T) {\n\tfor name, r := range map[string]Rules{\n'
                          + "".join('\t\t"%s": vhDef%s(),\n' % (d, d) for d in defs)
                          + "".join('\t\t"G%d": vhGenRules(%d, true),\n' % (i, i) for i in range(ngen)) +
                          '\t} {\n\t\tdata, err := json.Marshal(r)\n\t\tif err != nil {\n\t\t\tt.Fatal(err)\n\t\t}\n'
                          '\t\tif err := os.WriteFile(filepath.Join(os.Getenv("VERIF_OUT"), name+".json"), data, 0o644); err != nil {\n\t\t\tt.Fatal(err)\n\t\t}\n\t}\n}\n')
    ov = _os.path.join(work, "ov_dump.json")
    _json.dump({"Replace": {_os.path.join(REPO, "lexer", "zz_verif_lexdefs.go"): _os.path.join(verif, "harness", "lexer", "zz_verif_lexdefs.go"),
                            _os.path.join(REPO, "lexer", "zz_verif_lexgen.go"): _os.path.join(verif, "harness", "lexer", "zz_verif_lexgen.go"),
                            _os.path.join(REPO, "lexer", "zz_verif_dump_test.go"): dump}}, open(ov, "w"))
    r = _sp.run(["go", "test", "-vet=off", "-count=1", "-run", "^TestVDumpDefs$", "-overlay", ov, "."],
                env=dict(GOENV, VERIF_OUT=work), cwd=_os.path.join(REPO, "lexer"), text=True, capture_output=True)
    if r.returncode != 0:
        return dict(problem="C05: could not dump definitions: " + (r.stdout + r.stderr)[-1500:])
    # 2. build the generator from the current tree and run it per definition
    genbin = _os.path.join(work, "participle-gen")
    r = _sp.run(["go", "build", "-o", genbin, "."], env=GOENV, cwd=_os.path.join(REPO, "cmd", "participle"), text=True, capture_output=True)
    if r.returncode != 0:
        return dict(problem="C05: generator does not build: " + r.stderr[-1500:])
    overlay = {}
    violations = []
    ok_defs = []
    gdefs = ["G%d" % i for i in range(ngen)]
    for d in defs + gdefs:
        out = _os.path.join(work, "gen_%s.go" % d)
        with open(_os.path.join(work, d + ".json")) as fin:
            r = _sp.run([genbin, "gen", "lexer", "zzverifgen", "--name", d], stdin=fin, env=GOENV, text=True, capture_output=True)
        if r.returncode != 0:
            violations.append(dict(harness="generator:" + d, outcome="panic" if "panic:" in r.stderr else "assert",
                                   msg="C05: the generator fails on a definition of its supported class: " + r.stderr.strip().splitlines()[0][:300] if r.stderr.strip() else "generator failed",
                                   where="cmd/participle gen lexer", inputs=[], definition=open(_os.path.join(work, d + ".json")).read()))
            continue
        open(out, "w").write(r.stdout)
        overlay[_os.path.join(REPO, GENPKG_DIR, "gen_%s.go" % d)] = out
        ok_defs.append(d)
    # 2b. the emitted source must compile (C05): build all emitted files as one virtual package; a file named in
    #     a compiler error is a violation for its definition and is left out of the symbolic run
    for _round in range(4):
        chk = {_os.path.join(REPO, GENPKG_DIR + "chk", _os.path.basename(v)): r for v, r in overlay.items()}
        ovc = _os.path.join(work, "ov_compile.json")
        _json.dump({"Replace": chk}, open(ovc, "w"))
        r = _sp.run(["go", "build", "-overlay", ovc, "./" + GENPKG_DIR + "chk"], env=GOENV, cwd=REPO, text=True, capture_output=True)
        if r.returncode == 0:
            break
        bad = sorted(set(_re.findall(r"gen_(\w+)\.go:\d+", r.stderr)))
        if not bad:
            return dict(problem="C05: emitted package does not build: " + r.stderr[-1500:])
        for d in bad:
            first = [l for l in r.stderr.splitlines() if "gen_%s.go:" % d in l][0]
            violations.append(dict(harness="generator:" + d, outcome="assert",
                                   msg="C05: the emitted Go source does not compile: " + first.strip()[:300],
                                   where="go build of the emitted source", inputs=[], definition=open(_os.path.join(work, d + ".json")).read()))
            overlay.pop(_os.path.join(REPO, GENPKG_DIR, "gen_%s.go" % d), None)
            if d in ok_defs:
                ok_defs.remove(d)
    # 3. qualified catalogue + entry points
    q = cat_src
    q = _re.sub(r"^package lexer\b", 'package zzverifgen\n\nimport "github.com/alecthomas/participle/v2/lexer"', q, flags=_re.M)
    q = _re.sub(r"\bRules\b", "lexer.Rules", q)
    q = _re.sub(r"\b(Push|Pop|Return|Include)\(", r"lexer.\1(", q)
    qf = _os.path.join(work, "qualified_lexdefs.go")
    open(qf, "w").write(q)
    overlay[_os.path.join(REPO, GENPKG_DIR, "zz_verif_lexdefs.go")] = qf
    q = gen_src
    q = _re.sub(r"^package lexer\b", 'package zzverifgen\n\nimport "github.com/alecthomas/participle/v2/lexer"', q, flags=_re.M)
    q = _re.sub(r"\b(Rules|Rule|Action)\b", r"lexer.\1", q)
    q = _re.sub(r"\b(Push|Pop|Return|Include)\(", r"lexer.\1(", q)
    qf = _os.path.join(work, "qualified_lexgen.go")
    open(qf, "w").write(q)
    overlay[_os.path.join(REPO, GENPKG_DIR, "zz_verif_lexgen.go")] = qf
    entries = "package zzverifgen\n\n"
    for d in ok_defs:
        if d in gdefs:
            # one harness over the whole family would need a lexer chosen by a symbolic index;
            # one entry point per generated definition keeps every path's code concrete
            entries += "func VH_C05_%s() { vhC05(vhGenRules(%s, true), %sLexer) }\n" % (d, d[1:], d)
            entries += "func VH_C07_Gen_%s() { vhC07Gen(%sLexer) }\n" % (d, d)
            continue
        entries += "func VH_C05_%s() { vhC05(vhDef%s(), %sLexer) }\n" % (d, d, d)
        entries += "func VH_C07_Gen_%s() { vhC07Gen(%sLexer) }\n" % (d, d)
    entries += "\nfunc VH_C05_Canary() {\n\tin := vhInput()\n\tvAssert(len(in) < 2, \"canary: must fail\")\n}\n"
    entries += "\nfunc VH_C07_Gen_Canary() {\n\tin := vhInput()\n\tvAssert(len(in) < 2, \"canary: must fail\")\n}\n"
    ef = _os.path.join(work, "zz_verif_gen_entries.go")
    open(ef, "w").write(entries)
    # the Run class copies spec["files"] from /verif/harness; extra files go through extra_overlay
    overlay[_os.path.join(REPO, GENPKG_DIR, "zz_verif_gen_entries.go")] = ef
    return dict(spec=dict(extra_overlay=overlay, entry_file=ef), violations=violations)


GENERATORS["c05"] = _gen_c05
