"""Per-property configuration of the gosym checks."""

GENERATORS = {}

NOT_APPLICABLE = {
    "C16": "behaviour lives in encoding/json's reflection-driven codec and regexp.Compile; the repo side is a constant four-way tag switch, so a solver has nothing to range over without verifying a hand-written model of encoding/json instead of the code (DESIGN.md §5)",
}

PROPS = {
    "C12": dict(
        level="model_checking",
        level_text="bounded model checking by symbolic execution: base case + one inductive step per PeekingLexer operation from an arbitrary state satisfying the representation invariant; the solver discharges every assertion and every index/slice bound on all feasible paths of the real lexer/peek.go for streams up to the bound",
        level_note="trusted: the SSA executor (validated per run by replaying sampled paths natively), z3, the invariant (if too weak the step cases fail, never pass wrongly); bounds: <=4 (quick) / <=7 (thorough) tokens",
        runs=[dict(
            pkg="lexer", files=["lexer/zz_verif_peek.go"], harness="^VH_C12_",
            reach={
                "VH_C12_Base": ["base"], "VH_C12_Peek": ["peek"], "VH_C12_RawPeek": ["rawpeek"],
                "VH_C12_Next": ["next-eof", "next-advance"], "VH_C12_PeekAny": ["peekany"],
                "VH_C12_FastForward": ["ff-eof", "ff-token"], "VH_C12_FastForwardAny": ["ff-any"],
                "VH_C12_Range": ["range"], "VH_C12_Checkpoint": ["checkpoint"],
            },
        )],
        bounds=dict(
            quick="streams of <= 4 tokens + EOF, every token type an arbitrary 32-bit value != EOF, elision set {-2,-3}; cursors arbitrary 64-bit ints subject to the representation invariant; one operation from an arbitrary valid state (induction step) + base case; match predicate = one arbitrary bit per token",
            thorough="as quick with streams of <= 7 tokens + EOF",
        ),
        outside="streams longer than the bound; elision sets other than two types (the code treats the set only through map membership)",
        assumptions=[
            "induction: every reachable PeekingLexer state satisfies the invariant vhInv because Upgrade establishes it (base case) and each public operation preserves it (step cases)",
            "Go map iteration order is not modelled (insertion order); peek.go never iterates a map",
        ],
        explanation="Base case + one inductive step per public PeekingLexer operation from an arbitrary state satisfying the representation invariant; each assertion is discharged by the SMT solver on every feasible path of the real SSA of lexer/peek.go.",
    ),
    "C03": dict(
        level="model_checking",
        level_text="bounded model checking by symbolic execution: for every catalogue definition and every input of up to L arbitrary bytes, the real lexer.New + StatefulLexer.Next (rule order, include splicing, Return, Push/Pop, back-references, elision, error cases, span/position bookkeeping) is compared on every feasible path with a reference lexer written from the property statement; the solver decides which byte classes are feasible on each path",
        level_note="trusted: the reference regex matcher that replaces package regexp on symbolic input (validated against the real regexp natively, and every counterexample is replayed against the real regexp before it is reported), the SSA executor (sampled paths replayed natively on every run), z3; bounds: 22 definitions, inputs <= 3 (quick) / <= 4 (thorough) bytes",
        runs=[dict(pkg="lexer", files=["lexer/zz_verif_stateful.go"], harness="^VH_C03_",
                   reach={h: ["error", "tokens"] for h in ["VH_C03_Literal", "VH_C03_Overlap", "VH_C03_PushPop", "VH_C03_Return", "VH_C03_IncludeNested", "VH_C03_Backref"]})],
        bounds=dict(quick="22 catalogue definitions (literals, overlapping rules, classes, ., multi-byte class, anchors/word boundaries, alternation, empty-matching rule, case folding, Push/Pop, Return, Include first/middle/nested, Pop and Return in Root, optional group in a Push rule, back-references incl. missing group and metacharacter group) x all inputs of <= 3 arbitrary bytes (incl. invalid UTF-8)",
                    thorough="same catalogue x all inputs of <= 4 arbitrary bytes"),
        outside="definitions outside the catalogue; inputs longer than the bound; correctness of package regexp itself; back-reference groups containing bytes >= 0x80",
        assumptions=["package regexp is replaced on symbolic input by the engine's reference matcher (refre.go), leftmost-first semantics over regexp/syntax trees",
                     "map iteration order in lexer.New is insertion order (New sorts keys before numbering symbols)"],
        explanation="Differential check of the real stateful lexer against a reference lexer derived from the property statement, on symbolic input bytes.",
    ),
    "C04": dict(
        level="model_checking",
        level_text="bounded model checking by symbolic execution: token values, offsets, ordering, EOF placement, line/column and filename are asserted from the input alone on every feasible path of the real StatefulLexer.Next for all inputs up to L bytes, plus a unit obligation for Position.Advance from an arbitrary position over an arbitrary span",
        level_note="trusted: as C03; the text/scanner-based lexer is outside the claim (stdlib scanner not encoded); generated lexers are covered by the C05 run",
        runs=[dict(pkg="lexer", files=["lexer/zz_verif_stateful.go"], harness="^VH_C04_",
                   reach={"VH_C04_Advance": ["same-line", "new-line"], "VH_C04_Literal": ["ok", "error"], "VH_C04_Multibyte": ["ok", "error"]})],
        bounds=dict(quick="Position.Advance: any 64-bit start position x any span of <= 4 arbitrary bytes; 9 catalogue definitions x all inputs of <= 3 arbitrary bytes",
                    thorough="Position.Advance: spans <= 5 bytes; inputs <= 4 bytes"),
        outside="text/scanner-based lexer (content produced by the stdlib scanner); inputs longer than the bound",
        assumptions=["package regexp replaced by the reference matcher on symbolic input"],
        explanation="Position and losslessness invariants asserted on every path of the runtime lexer; Advance checked as a unit against its specification.",
    ),
    "C07": dict(
        level="model_checking",
        level_text="bounded model checking by symbolic execution: (1) whole runs from the initial state for all inputs up to L bytes: no panic, non-empty tokens, <= len+1 Next calls, EOF idempotent, Next after an error does not panic; (2) one inductive step of Next from an arbitrary lexer state (any reachable-shaped stack of depth <= 2, arbitrary groups, arbitrary remaining input): no panic and the stack invariant is preserved",
        level_note="trusted: as C03; the inductive step covers histories of any length only for the stack shapes in the bound (depth <= 2, <= 2 groups of <= 1 byte)",
        runs=[dict(pkg="lexer", files=["lexer/zz_verif_stateful.go"], harness="^VH_C07_",
                   reach={"VH_C07_Run_Literal": ["eof", "error"], "VH_C07_Run_PushPop": ["eof", "error"], "VH_C07_Step_PushPop": ["token"]})],
        bounds=dict(quick="12 definitions x inputs <= 3 bytes (whole run); 6 definitions x stack depth <= 2 x <= 2 groups of <= 1 byte x remaining input <= 3 bytes (step)",
                    thorough="inputs <= 4 bytes"),
        outside="generated lexers (C05 run); definitions outside the catalogue; termination beyond the instruction budget is reported as inconclusive, not assumed",
        assumptions=["package regexp replaced by the reference matcher on symbolic input"],
        explanation="No-panic / progress / EOF-idempotence obligations on whole runs and on one inductive step from an arbitrary state.",
    ),
}
