"""Per-property configuration of the gosym checks."""

GENERATORS = {}

NOT_APPLICABLE = {
    "C16": "behaviour lives in encoding/json's reflection-driven codec and regexp.Compile; the repo side is a constant four-way tag switch, so a solver has nothing to range over without verifying a hand-written model of encoding/json instead of the code (DESIGN.md §5)",
}

PROPS = {
    "C12": dict(
        level="model_checking",
        level_text="bounded model checking by symbolic execution: base case + one inductive step per PeekingLexer operation from an arbitrary state satisfying the representation invariant; the solver discharges every assertion and every index/slice bound on all feasible paths of the real lexer/peek.go for streams up to the bound",
        level_note="trusted: the SSA executor (validated per run by replaying sampled paths natively), z3, the invariant (if too weak the step cases fail, never pass wrongly); bounds: <=4 (quick) / <=7 (thorough) tokens",
        runs=[dict(
            pkg="lexer", files=["lexer/zz_verif_peek.go"], harness="^VH_C12_",
            reach={
                "VH_C12_Base": ["base"], "VH_C12_Peek": ["peek"], "VH_C12_RawPeek": ["rawpeek"],
                "VH_C12_Next": ["next-eof", "next-advance"], "VH_C12_PeekAny": ["peekany"],
                "VH_C12_FastForward": ["ff-eof", "ff-token"], "VH_C12_FastForwardAny": ["ff-any"],
                "VH_C12_Range": ["range"], "VH_C12_Checkpoint": ["checkpoint"],
            },
        )],
        bounds=dict(
            quick="streams of <= 4 tokens + EOF, every token type an arbitrary 32-bit value != EOF, elision set {-2,-3}; cursors arbitrary 64-bit ints subject to the representation invariant; one operation from an arbitrary valid state (induction step) + base case; match predicate = one arbitrary bit per token",
            thorough="as quick with streams of <= 7 tokens + EOF",
        ),
        outside="streams longer than the bound; elision sets other than two types (the code treats the set only through map membership)",
        assumptions=[
            "induction: every reachable PeekingLexer state satisfies the invariant vhInv because Upgrade establishes it (base case) and each public operation preserves it (step cases)",
            "Go map iteration order is not modelled (insertion order); peek.go never iterates a map",
        ],
        explanation="Base case + one inductive step per public PeekingLexer operation from an arbitrary state satisfying the representation invariant; each assertion is discharged by the SMT solver on every feasible path of the real SSA of lexer/peek.go.",
    ),
}
